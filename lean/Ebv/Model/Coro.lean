import Ebv.Generated.Consts
import Ebv.Model.AlDriver
/-! A small structured-coroutine language with Python's cancellation semantics,
and the transcription of the sync-group coroutines of ebpfcat/ebpfcat.py into it
(`SyncGroupBase.run` + both levels of `map_fmmu`, `FastSyncGroup.run` +
`FastEtherCat.register_sync_group`, `ProcessSyncGroup.wait_for_process`).

`run k c i` executes `c` starting at await index `i`; the await whose index equals
`k` receives `CancelledError` (`k = none`: never).  The result carries the trace of
observable actions (an await is recorded when it is *started*: the request is
issued before the coroutine suspends), the way the coroutine ends, and the next
await index.  What asyncio does on `task.cancel()` and what is kept here:

* the exception is raised at the await the task is suspended in; `finally` blocks and
  context-manager exits run; awaits inside them complete normally (cancellation is
  delivered once); an exception (or `return`) that ends a cleanup block replaces the
  exception in flight;
* a task waiting in `gather` forwards the cancellation to every child; each child gets
  `CancelledError` at the await it is suspended in, children not yet started never
  start, and the gather re-raises `CancelledError`.  All gathers of the anchored code
  have cleanup-free children (`to_operational`, `set_state`), so a child is its list
  of awaits and the children advance in lock step (asyncio's FIFO ready queue).
-/
namespace Ebv.Coro
open Ebv.Consts

inductive Exc where
  | cancelled            -- asyncio.CancelledError
  | error (tag : Nat)    -- any other exception
deriving Repr, DecidableEq

inductive Outcome where
  | normal               -- ran off the end of the block
  | returned             -- `return` (unwinds like an exception up to the function boundary)
  | raised (e : Exc)
  | pending              -- still suspended: an await nobody completes / `while True` out of fuel
deriving Repr, DecidableEq

inductive Coro (α : Type) where
  | skip
  | act (a : α)                       -- synchronous observable action
  | await (a : α)                     -- await point: completes, or receives CancelledError
  | park (a : α)                      -- await point only a cancellation can end
  | raise (e : Exc)
  | ret
  | seq (p q : Coro α)
  | tryFinally (body fin : Coro α)
  /-- `try: body  except <catches>: handler  else: els` -/
  | tryExcept (body : Coro α) (catches : Exc → Bool) (handler els : Coro α)
  /-- `(async) with cm: body` for a generator-based context manager of the shape
      `try: enter; yield; exitOk  finally: fin` -/
  | withCtx (enter exitOk fin body : Coro α)
  /-- `await gather(*children)`, each child a cleanup-free list of awaits -/
  | gather (children : List (List α))
  /-- `while True: body` with fuel -/
  | loop (fuel : Nat) (body : Coro α)

structure Res (α : Type) where
  trace : List α
  out : Outcome
  idx : Nat
deriving Repr

variable {α : Type}

/-- continue with `f` when the first part ended normally -/
def Res.andThen (r : Res α) (f : Nat → Res α) : Res α :=
  if r.out = .normal then
    let r2 := f r.idx
    ⟨r.trace ++ r2.trace, r2.out, r2.idx⟩
  else r

/-- `finally`: runs unless the coroutine is still suspended; a cleanup block that does not
end normally replaces the outcome in flight -/
def Res.finallyDo (r : Res α) (f : Nat → Res α) : Res α :=
  if r.out = .pending then r
  else
    let r2 := f r.idx
    ⟨r.trace ++ r2.trace, if r2.out = .normal then r.out else r2.out, r2.idx⟩

/-- the part of a generator context manager after its `yield`: resumed normally when the
body ended without exception (also on `return`), skipped when an exception is thrown in -/
def Res.exitOk (r : Res α) (f : Nat → Res α) : Res α :=
  if r.out = .normal ∨ r.out = .returned then
    let r2 := f r.idx
    ⟨r.trace ++ r2.trace, if r2.out = .normal then r.out else r2.out, r2.idx⟩
  else r

/-- a list of awaits executed one after the other -/
def runAwaits (k : Option Nat) : List α → Nat → Res α
  | [], i => ⟨[], .normal, i⟩
  | a :: l, i =>
    if k = some i then ⟨[a], .raised .cancelled, i + 1⟩
    else
      let r := runAwaits k l (i + 1)
      ⟨a :: r.trace, r.out, r.idx⟩

def runLoop (f : Nat → Res α) : Nat → Nat → Res α
  | 0, i => ⟨[], .pending, i⟩
  | n + 1, i => (f i).andThen (runLoop f n)

def heads : List (List α) → List α
  | [] => []
  | [] :: cs => heads cs
  | (a :: _) :: cs => a :: heads cs

def tails : List (List α) → List (List α)
  | [] => []
  | [] :: cs => tails cs
  | (_ :: l) :: cs => l :: tails cs

def interleaveAux : Nat → List (List α) → List α
  | 0, _ => []
  | n + 1, cs => heads cs ++ interleaveAux n (tails cs)

def totalLen : List (List α) → Nat
  | [] => 0
  | c :: cs => c.length + totalLen cs

/-- lock-step schedule of the children of a gather: first await of every child, then the
second of every child that has one, … -/
def interleave (cs : List (List α)) : List α := interleaveAux (totalLen cs) cs

def run (k : Option Nat) : Coro α → Nat → Res α
  | .skip, i => ⟨[], .normal, i⟩
  | .act a, i => ⟨[a], .normal, i⟩
  | .await a, i => runAwaits k [a] i
  | .park a, i => if k = some i then ⟨[a], .raised .cancelled, i + 1⟩ else ⟨[a], .pending, i + 1⟩
  | .raise e, i => ⟨[], .raised e, i⟩
  | .ret, i => ⟨[], .returned, i⟩
  | .seq p q, i => (run k p i).andThen (run k q)
  | .tryFinally b f, i => (run k b i).finallyDo (run k f)
  | .tryExcept b c h e, i =>
    let r := run k b i
    match r.out with
    | .raised x =>
      if c x then
        let r2 := run k h r.idx
        ⟨r.trace ++ r2.trace, r2.out, r2.idx⟩
      else r
    | .normal =>
      let r2 := run k e r.idx
      ⟨r.trace ++ r2.trace, r2.out, r2.idx⟩
    | _ => r
  | .withCtx en ex fi b, i =>
    ((run k en i).andThen fun j => (run k b j).exitOk (run k ex)).finallyDo (run k fi)
  | .gather cs, i => runAwaits k (interleave cs) i
  | .loop n b, i => runLoop (run k b) n i

/-- trace and outcome of the coroutine when CancelledError is delivered at the k-th await -/
def runCancel (k : Option Nat) (c : Coro α) : List α × Outcome :=
  let r := run k c 0
  (r.trace, r.out)

/-- number of awaits the run passes through -/
def awaitCount (k : Option Nat) (c : Coro α) : Nat := (run k c 0).idx

/-! ### the observable actions of a sync group -/

inductive Act where
  | slot (t idx : Nat) (set : Bool)   -- `fmmu_used[idx] = logical` (true) / `= None` (false) of terminal t
  | fmmuOn (t idx : Nat)              -- write of the FMMU configuration block idx (activate)
  | fmmuOff (t idx : Nat)             -- write 0 to the activate byte of FMMU idx
  | getState (t : Nat)                -- read of AL status
  | setState (t v : Nat)              -- write of AL control
  | send                              -- `ec.roundtrip_packet(...)`
  | recv                              -- `await wait_for(future, …)`
  | sleep                             -- `await sleep(…)`
  | load                              -- `sg.load()`
  | lookup (i : Nat)                  -- `lookup_elem(programs, i)`
  | progSet (i : Nat)                 -- `update_elem(programs, i, fd)`
  | closeFd                           -- `sg.close()`
  | groupSet (i : Nat)                -- `sync_groups[i] = sg`
  | progDel (i : Nat)                 -- `delete_elem(programs, i)`
  | groupDel (i : Nat)                -- `del sync_groups[i]`
  | pidfdOpen
  | waitChild                         -- `add_reader(fd, …); await future`
  | childSeen                         -- the reader fired: the child has terminated
  | setRunning (b : Bool)             -- `runningValue.value = b`
  | removeReader
deriving Repr, DecidableEq

/-- what a sync group knows about one terminal -/
structure Term where
  pos : Nat                 -- address, names the terminal in the trace
  rw : Bool                 -- read-write access requested by a device
  out : Option Nat          -- FMMU slot of the OUT mapping (none: no OUT base in fmmu_maps)
  inp : Option Nat          -- FMMU slot of the IN mapping
  start : Nat               -- AL state the terminal is in when the group starts
deriving Repr, DecidableEq

/-- `start = min(start, len-1); index = start - fmmu_used[start::-1].index(None)` -/
def pickSlot (used : List Bool) (start : Nat) : Option Nat :=
  if used = [] then none
  else
    let s := min start (used.length - 1)
    (List.range (s + 1)).reverse.find? fun j => !(used.getD j true)

/-- slots `Terminal.map_fmmu` picks on a terminal with `nf` free FMMUs: OUT first (start 1),
then IN (start len) -/
def slotsOf (nf : Nat) (hasOut hasIn : Bool) : Option (Option Nat × Option Nat) :=
  let used0 := List.replicate nf false
  match (if hasOut then (pickSlot used0 1).map some else some none) with
  | none => none
  | some o =>
    let used1 := match o with
      | some j => used0.set j true
      | none => used0
    match (if hasIn then (pickSlot used1 nf).map some else some none) with
    | none => none
    | some i => some (o, i)

/-- `Terminal.map_fmmu(logical, write)` around `body`:
    `fmmu_used[index] = logical; try: await write(0x600…); yield; await write(0x60c…) finally: fmmu_used[index] = None` -/
def mapOne (t idx : Nat) (body : Coro Act) : Coro Act :=
  .seq (.act (.slot t idx true))
    (.withCtx (.await (.fmmuOn t idx)) (.await (.fmmuOff t idx)) (.act (.slot t idx false)) body)

/-- the mappings `SyncGroupBase.map_fmmu` enters, in order: per terminal OUT then IN -/
def mappings : List Term → List (Nat × Nat)
  | [] => []
  | t :: ts => (t.out.toList.map fun j => (t.pos, j)) ++ (t.inp.toList.map fun j => (t.pos, j)) ++ mappings ts

/-- `async with AsyncExitStack() as stack: for …: await stack.enter_async_context(…); yield`:
an exit stack unwinds like nested `with` statements -/
def mapFmmu : List (Nat × Nat) → Coro Act → Coro Act
  | [], body => body
  | (t, j) :: ms, body => mapOne t j (mapFmmu ms body)

/-- requests of the `for current in order[…]` loop of `to_operational` on a terminal that
reports every requested state at the first poll -/
def toOpSteps (t target : Nat) : List Nat → Nat → List Act
  | [], _ => []
  | cur :: todo, state =>
    if state ≥ target then [] else .setState t cur :: .getState t :: toOpSteps t target todo cur

/-- awaits of `t.to_operational(SAFE_OPERATIONAL)` -/
def toOp (t : Term) : List Act :=
  .getState t.pos :: toOpSteps t.pos ms_SAFE_OPERATIONAL (Ebv.AlDriver.after t.start) t.start

def rwOf (ts : List Term) : List Nat := (ts.filter (·.rw)).map (·.pos)

/-- one cycle: `data = await wait_for(future, …); update_devices; await sleep(…); future = roundtrip_packet(…)` -/
def cycle : Coro Act := .seq (.await .recv) (.seq (.await .sleep) (.act .send))

/-- `try:` part of `SyncGroupBase.run`: request OPERATIONAL for the read-write terminals, then cycle -/
def opBody (ts : List Term) (n : Nat) : Coro Act :=
  .seq (.gather ((rwOf ts).map fun p => [.setState p ms_OPERATIONAL])) (.loop n cycle)

/-- `finally:` part of `SyncGroupBase.run`: request SAFE-OPERATIONAL for the read-write terminals -/
def safeFin (ts : List Term) : Coro Act :=
  .gather ((rwOf ts).map fun p => [.setState p ms_SAFE_OPERATIONAL])

/-- the body of `SyncGroupBase.run` inside `async with self.map_fmmu()` -/
def slowCore (ts : List Term) (n : Nat) : Coro Act :=
  .seq (.gather (ts.map toOp))
    (.seq (.act .send) (.tryFinally (opBody ts n) (safeFin ts)))

/-- `SyncGroupBase.run` (`self.running` stays true: `while True` with fuel n) -/
def slowRun (ts : List Term) (n : Nat) : Coro Act := mapFmmu (mappings ts) (slowCore ts n)

/-- `while True: index = randrange(MAX_PROGS); try: lookup_elem(…) except OSError (ENOENT): break`;
`busy` are the proposed indices that are already taken, `index` the free one -/
def lookups (busy : List Nat) (index : Nat) : Coro Act :=
  busy.foldr (fun i c => .seq (.act (.lookup i)) c) (.act (.lookup index))

/-- body of `with self.ec.register_sync_group(self)` in `FastSyncGroup.run`: prime the pump, then the
slow group's `run` -/
def fastBody (ts : List Term) (n : Nat) : Coro Act :=
  .seq (.act .send) (.seq (.await .sleep) (.seq (.act .send) (.seq (.await .sleep) (slowRun ts n))))

/-- `FastSyncGroup.run` with `register_sync_group` as the context manager
`load; lookups; update_elem; close; sync_groups[index] = sg; try: yield finally: delete_elem; del sync_groups[index]` -/
def fastRun (busy : List Nat) (index : Nat) (ts : List Term) (n : Nat) : Coro Act :=
  .seq (.act .load)
    (.seq (lookups busy index)
      (.seq (.act (.progSet index))
        (.seq (.act .closeFd)
          (.seq (.act (.groupSet index))
            (.withCtx .skip .skip (.seq (.act (.progDel index)) (.act (.groupDel index)))
              (fastBody ts n))))))

/-! ### a group that is started again

`SyncGroup.start` may be called again once the task is done (`assert self.task is None or self.task.done()`), and a
fast group's `start` likewise runs `run` anew.  The next run finds each terminal in the AL state the last state request
of the run before left it in (conformant terminals take every requested state), everything else as declared. -/

def alStep (t : Nat) (s : Nat) : Act → Nat
  | .setState t' v => if t' = t then v % 16 else s
  | _ => s

/-- AL state of terminal `t` after the requests of a trace -/
def alAfter (tr : List Act) (t start : Nat) : Nat := tr.foldl (alStep t) start

def restartTerms (tr : List Act) (ts : List Term) : List Term :=
  ts.map fun t => { t with start := alAfter tr t.pos t.start }

/-- the group object is started once per entry of `ks`, each run cancelled at that await (of that run) -/
def runsOf (mk : List Term → Coro Act) : List (Option Nat) → List Term → List (Res Act)
  | [], _ => []
  | k :: ks, ts => run k (mk ts) 0 :: runsOf mk ks (restartTerms (run k (mk ts) 0).trace ts)

def isCancelled : Exc → Bool
  | .cancelled => true
  | _ => false

/-- one pass of the `while True` of `wait_for_process`; `err` = "`error` is not None".
The child exits once `runningValue` is cleared; before that only if `selfExit`. -/
def waitIter (selfExit err : Bool) : Coro Act :=
  .tryFinally
    (.tryExcept
      (.seq (if err || selfExit then .await .waitChild else .park .waitChild) (.act .childSeen))
      isCancelled
      (.act (.setRunning false))
      (if err then .raise .cancelled else .ret))
    (.act .removeReader)

/-- a pass that ends normally went through the `except` clause, so `error` is set afterwards -/
def waitLoop (selfExit : Bool) : Bool → Nat → Coro Act
  | _, 0 => .loop 0 .skip
  | err, n + 1 => .seq (waitIter selfExit err) (waitLoop selfExit true n)

/-- `ProcessSyncGroup.wait_for_process` -/
def procRun (selfExit : Bool) (n : Nat) : Coro Act :=
  .seq (.act .pidfdOpen) (waitLoop selfExit false n)

end Ebv.Coro
