import Ebv.Model.Bytes
import Ebv.Generated.Consts
/-! Model of hash-map variables and `Dict` entries seen from Python and from the generated program
(ebpfcat/ebpf.py `Structure`, `Member`; ebpfcat/hashmap.py `HashGlobalVar`, `HashGlobalVarDesc`,
`HashMap`, `TheDict`, `Dict`; ebpfcat/bpf.py `lookup_elem`, `update_elem`, `delete_elem`,
`get_next_key`, `lookup_and_delete_elem`).

* `Fmt`: the member formats `b B h H i I q Q` with `struct`'s little-endian two's complement codec.
* Structure layout: `Member.__set_name__` packs members at the running sum of the sizes and raises
  `AssembleError` unless the offset is a multiple of the size (`layoutOk`).
* `Dict.__set_name__`: key and value images on the program stack (`keyDepth`, `valDepth`).
* Both sides write members one at a time into an image (`writeMembers`): Python with
  `pack_into(fmt, data, rel, v)` (range-checked) into `Structure.data`, the program with a store of the
  low bytes at `r10 + key_offset + rel` / `r0 + rel`.
* The kernel hash map is the finite map `List (bytes × bytes)` with the helper semantics
  `lookup / update / delete` (`Assoc`), shared by both sides.
* `cStep`: what every `TheDict` operation does, as the code is.
* `aStep`: the abstract dictionary over member tuples the property speaks about.
* hash variables: 1-byte ordinal key, 8-byte cell, `HashMap.load` defaults, both sides' get/set. -/
namespace Ebv.HashVars
open Ebv.Bytes Ebv.Consts

abbrev Bytes := List UInt8

/-! ### formats -/

inductive Fmt where
  | b | B | h | H | i | I | q | Q
deriving DecidableEq, Repr

def Fmt.size : Fmt → Nat
  | .b | .B => 1
  | .h | .H => 2
  | .i | .I => 4
  | .q | .Q => 8

/-- `fmt.islower()` -/
def Fmt.signed : Fmt → Bool
  | .b | .h | .i | .q => true
  | _ => false

/-- the value is in the format's range (`struct.pack` accepts it) -/
def Fmt.fits (f : Fmt) (v : Int) : Bool := if f.signed then fitsS f.size v else fitsU f.size v

/-- low `size` bytes of the two's complement image: what a store of that width writes -/
def Fmt.enc (f : Fmt) (v : Int) : Bytes := encLE f.size (ofSigned f.size v)

/-- `struct.unpack(fmt, bytes)[0]`, and what a load of that width with the format's sign/zero
extension puts into a 64-bit register -/
def Fmt.dec (f : Fmt) (bs : Bytes) : Int :=
  if f.signed then toSigned f.size (decLE bs) else (decLE bs : Int)

/-- `struct.pack(fmt, v)`; `none` = `struct.error` -/
def Fmt.pack (f : Fmt) (v : Int) : Option Bytes := if f.fits v then some (f.enc v) else none

/-! ### `Structure` / `Member` layout -/

def structSize (fs : List Fmt) : Nat := (fs.map Fmt.size).sum

/-- `relative_addr` of every member: the running sum, starting at `pos` -/
def offsets : Nat → List Fmt → List Nat
  | _, [] => []
  | pos, f :: fs => pos :: offsets (pos + f.size) fs

/-- `Member.__set_name__` accepts the class: `owner.stack & (size - 1) == 0` for every member -/
def layoutOk : Nat → List Fmt → Bool
  | _, [] => true
  | pos, f :: fs => pos % f.size == 0 && layoutOk (pos + f.size) fs

/-- `-8`-masking of a negative stack offset, on depths: `-(d) & -8 = -(roundUp8 d)` -/
def roundUp8 (n : Nat) : Nat := (n + 7) / 8 * 8

/-- `LocalVar.__set_name__`: `owner.stack -= size; owner.stack &= -size`, on depths -/
def localDepth (d : Nat) (f : Fmt) : Nat := (d + f.size + (f.size - 1)) / f.size * f.size

/-- `-owner.stack` after the local variables declared before the Dict -/
def localsDepth (fs : List Fmt) : Nat := fs.foldl localDepth 0

structure DictDecl where
  keyFmts : List Fmt
  valFmts : List Fmt
  depth0 : Nat          -- `-owner.stack` before `Dict.__set_name__` (local variables declared earlier)
  maxEntries : Nat
deriving Repr

def DictDecl.K (D : DictDecl) : Nat := structSize D.keyFmts
def DictDecl.V (D : DictDecl) : Nat := structSize D.valFmts
/-- `key_offset = -keyDepth`, `value_offset = -valDepth` -/
def DictDecl.keyDepth (D : DictDecl) : Nat := roundUp8 (D.depth0 + D.K)
def DictDecl.valDepth (D : DictDecl) : Nat := roundUp8 (D.keyDepth + D.V)

/-- size of the program stack -/
def stackSize : Nat := 512
/-- index of `r10 + key_offset` / `r10 + value_offset` in the stack image (`r10` = end of the image) -/
def DictDecl.keyBase (D : DictDecl) : Nat := stackSize - D.keyDepth
def DictDecl.valBase (D : DictDecl) : Nat := stackSize - D.valDepth

/-- the declaration is accepted and both images are on the stack -/
def DictDecl.valid (D : DictDecl) : Bool :=
  layoutOk 0 D.keyFmts && layoutOk 0 D.valFmts && decide (D.valDepth ≤ stackSize) &&
  decide (0 < D.K) && decide (0 < D.V)

/-! ### writing and reading the members of an image -/

/-- set the members one after the other at their offsets (`pos` = offset of the first) -/
def writeMembers (pack : Fmt → Int → Option Bytes) : Nat → List Fmt → List Int → Bytes → Option Bytes
  | _, [], _, data => some data
  | _, _ :: _, [], data => some data
  | pos, f :: fs, v :: vs, data =>
    match pack f v with
    | none => none
    | some bs => writeMembers pack (pos + f.size) fs vs (setRange data pos bs)

/-- read every member at its offset -/
def readMembers : Nat → List Fmt → Bytes → List Int
  | _, [], _ => []
  | pos, f :: fs, data => f.dec (slice data pos (pos + f.size)) :: readMembers (pos + f.size) fs data

/-- Python: `s = Structure(); s.m0 = v0; …` — `data = bytearray(stack)`, then `pack_into` per member -/
def pyStruct (fs : List Fmt) (vals : List Int) : Option Bytes :=
  writeMembers Fmt.pack 0 fs vals (zeros (structSize fs))

/-- program: `self.table.key.m0 = v0; …` — stores at `r10 + offset + rel` (or `r0 + rel`), low bytes -/
def progStruct (base : Nat) (fs : List Fmt) (vals : List Int) (mem : Bytes) : Bytes :=
  (writeMembers (fun f v => some (f.enc v)) base fs vals mem).getD mem

/-- the concatenated member images: the byte string a structure with these values is -/
def encStruct : List Fmt → List Int → Bytes
  | f :: fs, v :: vs => f.enc v ++ encStruct fs vs
  | _, _ => []

def allFit : List Fmt → List Int → Bool
  | [], [] => true
  | f :: fs, v :: vs => f.fits v && allFit fs vs
  | _, _ => false

/-! ### the hash map: a finite map with the helper semantics -/

section Assoc
variable {α β : Type} [DecidableEq α]

def lookup : List (α × β) → α → Option β
  | [], _ => none
  | (k', v) :: m, k => if k' = k then some v else lookup m k

/-- overwrite the value of an existing key in place -/
def replace : List (α × β) → α → β → List (α × β)
  | [], _, _ => []
  | (k', v') :: m, k, v => if k' = k then (k', v) :: m else (k', v') :: replace m k v

def erase : List (α × β) → α → List (α × β)
  | [], _ => []
  | (k', v') :: m, k => if k' = k then m else (k', v') :: erase m k

def E2BIG : Int := 7
def EEXIST : Int := 17
def ENOENT : Int := 2
def EINVAL : Int := 22

/-- `map_update_elem(map, key, value, flags)`: flags 0 ANY, 1 NOEXIST, 2 EXIST; returns `0` or `-errno` -/
def update (max : Nat) (m : List (α × β)) (k : α) (v : β) (flags : Nat) : List (α × β) × Int :=
  if flags > 2 then (m, -EINVAL) else
  match lookup m k with
  | some _ => if flags = 1 then (m, -EEXIST) else (replace m k v, 0)
  | none => if flags = 2 then (m, -ENOENT) else if max ≤ m.length then (m, -E2BIG) else (m ++ [(k, v)], 0)

end Assoc

abbrev KMap := List (Bytes × Bytes)
abbrev AMap := List (List Int × List Int)

/-! ### `Dict` operations from both sides -/

inductive Op where
  | pySet (k v : List Int)                  -- `table[Key(k)] = Value(v)`
  | pyGet (k : List Int)                    -- `table[Key(k)]`
  | pyDel (k : List Int)                    -- `del table[Key(k)]`
  | pyPop (k : List Int)                    -- `table.pop(Key(k))`
  | pyIter                                  -- `list(table)`
  | prUpdate (k v : List Int) (flags : Nat) -- program: `table.key.* = k; table.value.* = v; table.update(flags)`
  | prLookup (k : List Int)                 -- program: `table.key.* = k; with table.lookup() as (val, Else): read val.*`
  | prModify (k v : List Int)               -- program: the same, `val.* = v` inside the `with`
deriving Repr

inductive Out where
  | ok | structError | full | keyError | runtimeError | osError
  | value (v : List Int)                    -- members of the value Python got
  | keys (ks : List (List Int))             -- members of the keys iteration yields
  | r0 (code : Int)                         -- what `map_update_elem` returned to the program
  | found (v : List Int)                    -- the `with` body ran and read these members
  | els                                     -- the `Else` branch ran
deriving Repr, DecidableEq

/-- the implementation: byte images, `bpf()` commands and helper calls on the kernel's map -/
def cStep (D : DictDecl) (stack0 : Bytes) (m : KMap) : Op → KMap × Out
  | .pySet k v =>
    match pyStruct D.keyFmts k, pyStruct D.valFmts v with
    | some kb, some vb =>
      let (m', code) := update D.maxEntries m kb vb 0
      (m', if code = 0 then .ok else if code = -E2BIG then .full else .osError)
    | _, _ => (m, .structError)
  | .pyGet k =>
    match pyStruct D.keyFmts k with
    | none => (m, .structError)
    | some kb =>
      match lookup m kb with
      | some vb => (m, .value (readMembers 0 D.valFmts vb))
      | none => (m, .keyError)
  | .pyDel k =>
    match pyStruct D.keyFmts k with
    | none => (m, .structError)
    | some kb =>
      match lookup m kb with
      | some _ => (erase m kb, .ok)
      | none => (m, .keyError)
  | .pyPop k =>      -- `lookup_and_delete_elem` issues the regenerated command `dict_pop_cmd`
    match pyStruct D.keyFmts k with
    | none => (m, .structError)
    | some kb =>
      match lookup m kb with
      | some vb => (if dict_pop_cmd = bpf_LOOKUP_DELETE then erase m kb else m, .value (readMembers 0 D.valFmts vb))
      | none => (m, .keyError)
  | .pyIter =>       -- `StopIteration` of the first `get_next_key` (empty map) ends the generator
    (m, .keys (m.map fun e => readMembers 0 D.keyFmts e.1))
  | .prUpdate k v flags =>
    let st := progStruct D.valBase D.valFmts v (progStruct D.keyBase D.keyFmts k stack0)
    let kb := slice st D.keyBase (D.keyBase + D.K)
    let vb := slice st D.valBase (D.valBase + D.V)
    let (m', code) := update D.maxEntries m kb vb flags
    (m', .r0 code)
  | .prLookup k =>
    let st := progStruct D.keyBase D.keyFmts k stack0
    match lookup m (slice st D.keyBase (D.keyBase + D.K)) with
    | some vb => (m, .found (readMembers 0 D.valFmts vb))
    | none => (m, .els)
  | .prModify k v =>
    let st := progStruct D.keyBase D.keyFmts k stack0
    let kb := slice st D.keyBase (D.keyBase + D.K)
    match lookup m kb with
    | some vb => (replace m kb (progStruct 0 D.valFmts v vb), .found (readMembers 0 D.valFmts vb))
    | none => (m, .els)

/-- the abstract dictionary over member tuples (what the property text speaks about) -/
def aStep (D : DictDecl) (a : AMap) : Op → AMap × Out
  | .pySet k v =>
    if allFit D.keyFmts k && allFit D.valFmts v then
      let (a', code) := update D.maxEntries a k v 0
      (a', if code = 0 then .ok else .full)
    else (a, .structError)
  | .pyGet k =>
    if allFit D.keyFmts k then
      match lookup a k with
      | some v => (a, .value v)
      | none => (a, .keyError)
    else (a, .structError)
  | .pyDel k =>
    if allFit D.keyFmts k then
      match lookup a k with
      | some _ => (erase a k, .ok)
      | none => (a, .keyError)
    else (a, .structError)
  | .pyPop k =>
    if allFit D.keyFmts k then
      match lookup a k with
      | some v => (erase a k, .value v)
      | none => (a, .keyError)
    else (a, .structError)
  | .pyIter => (a, .keys (a.map Prod.fst))
  | .prUpdate k v flags =>
    let (a', code) := update D.maxEntries a k v flags
    (a', .r0 code)
  | .prLookup k =>
    match lookup a k with
    | some v => (a, .found v)
    | none => (a, .els)
  | .prModify k v =>
    match lookup a k with
    | some v0 => (replace a k v, .found v0)
    | none => (a, .els)

def cRun (D : DictDecl) (stack0 : Bytes) : KMap → List Op → KMap × List Out
  | m, [] => (m, [])
  | m, op :: ops =>
    let (m1, o) := cStep D stack0 m op
    let (m2, os) := cRun D stack0 m1 ops
    (m2, o :: os)

def aRun (D : DictDecl) : AMap → List Op → AMap × List Out
  | a, [] => (a, [])
  | a, op :: ops =>
    let (a1, o) := aStep D a op
    let (a2, os) := aRun D a1 ops
    (a2, o :: os)

/-! ### hash-map variables -/

inductive HFmt where
  | plain (f : Fmt)
  | fixed                  -- `"x"`: fixed point, a signed 64-bit cell scaled by `FIXED_BASE`
deriving DecidableEq, Repr

structure HVar where
  fmt : HFmt
  default : Int            -- an `int` default, or the scaled value of a `float` default
  defaultIsFloat : Bool
deriving Repr

def HFmt.signed : HFmt → Bool
  | .plain f => f.signed
  | .fixed => true

/-- the key of the i-th variable (ordinals count from 1) as Python packs it: `pack("B", count)` -/
def pyKey (i : Nat) : Option Bytes := if i + 1 ≤ hv_max_ordinal then some [UInt8.ofNat (i + 1)] else none
/-- as the program stores it: `ST [r10+stack], count` and a 1-byte key read -/
def progKey (i : Nat) : Bytes := [UInt8.ofNat (i + 1)]

/-- 8-byte image of a 64-bit register / of `pack("q"|"Q", v)` -/
def enc64 (v : Int) : Bytes := encLE 8 (ofSigned 8 v)

/-- the view of a cell through the variable's format -/
def HFmt.view : HFmt → Bytes → Int
  | .plain f, cell => f.dec (cell.take f.size)
  | .fixed, cell => toSigned 8 (decLE cell)

inductive HOp where
  | load                                   -- `HashMap.load`
  | pyGet (i : Nat)
  | pySet (i : Nat) (v : Int) (isFloat : Bool)
  | prGet (i : Nat)                        -- program: `out = self.var`
  | prSet (i : Nat) (v : Int)              -- program: `self.var = <64-bit expression>`
  | prAdd (i : Nat) (c : Int)              -- program: `self.var = self.var + c`
deriving Repr

inductive HOut where
  | ok | structError | keyError | indexError | exit
  | value (v : Int)
deriving Repr, DecidableEq

/-- what `HashGlobalVarDesc.__set__` hands to `pack("q"|"Q", …)`: a fixed-point variable is scaled
(`round(value * FIXED_BASE)`; a float is given here by its scaled value), a float into an integer
variable is a `struct.error` (`none`) -/
def pyStored (f : HFmt) (v : Int) (isFloat : Bool) : Option Int :=
  match f with
  | .plain _ => if isFloat then none else some v
  | .fixed => some (if isFloat then v else v * FIXED_BASE)

def hvPySet (vars : List HVar) (m : KMap) (i : Nat) (v : Int) (isFloat : Bool) : KMap × HOut :=
  match vars[i]? with
  | none => (m, .keyError)
  | some x =>
    match pyKey i with
    | none => (m, .structError)
    | some k =>
      match pyStored x.fmt v isFloat with
      | none => (m, .structError)
      | some w =>
        if (if x.fmt.signed then fitsS 8 w else fitsU 8 w) then ((update vars.length m k (enc64 w) 0).1, .ok)
        else (m, .structError)

def hvLoadFrom (vars : List HVar) (m : KMap) : Nat → List HVar → KMap × HOut
  | _, [] => (m, .ok)
  | i, x :: rest =>
    match hvPySet vars m i x.default x.defaultIsFloat with
    | (m', .ok) => hvLoadFrom vars m' (i + 1) rest
    | (m', o) => (m', o)

def hvStep (vars : List HVar) (m : KMap) : HOp → KMap × HOut
  | .load => hvLoadFrom vars m 0 vars
  | .pySet i v fl => hvPySet vars m i v fl
  | .pyGet i =>
    match vars[i]? with
    | none => (m, .keyError)
    | some x =>
      match pyKey i with
      | none => (m, .structError)
      | some k =>
        match lookup m k with
        | none => (m, .keyError)
        | some cell =>
          (m, .value (x.fmt.view cell))          -- fixed point: `unpack_from("q", …)[0] / FIXED_BASE`, given scaled
  | .prGet i =>
    match vars[i]? with
    | none => (m, .keyError)
    | some x =>
      match lookup m (progKey i) with
      | none => (m, .exit)                       -- `with r0 == 0: exit()`
      | some cell => (m, .value (x.fmt.view cell))
  | .prSet i v => ((update vars.length m (progKey i) (enc64 v) 0).1, .ok)
  | .prAdd i c =>
    match vars[i]? with
    | none => (m, .keyError)
    | some x =>
      match lookup m (progKey i) with
      | none => (m, .exit)
      | some cell => ((update vars.length m (progKey i) (enc64 (x.fmt.view cell + c)) 0).1, .ok)

/-! ### several loaded programs

A program class can be instantiated more than once (one program per network interface), and a program
can be closed and created again.  Every `EBPF.__init__` calls `Map.init(self, None)` for each declared
map, which creates kernel maps of its own (`HashMap.init`, `Dict.init`: `create_map`) and stores the
file descriptors on the *instance*; the descriptors on the class carry no per-program state.  So the
state of the system is one pair of kernel maps per program, and an operation issued on program `j`
(from Python through `j`'s descriptors, or by running `j`'s generated code, whose `ld_map_fd`
instructions carry `j`'s descriptors) acts on `j`'s pair only. -/

/-- the kernel maps of one loaded program: the Dict's map and the hash-variable map -/
structure Inst where
  dict : KMap
  hv : KMap
deriving Repr

inductive SOp where
  | new (j : Nat)                 -- `e = Prog(...); e.load()`: program `j` is created (again): new maps, `HashMap.load`
  | dict (j : Nat) (op : Op)      -- a Dict operation of program `j`, from either side
  | hvar (j : Nat) (op : HOp)     -- a hash-variable operation of program `j`, from either side
deriving Repr

def SOp.inst : SOp → Nat
  | .new j => j
  | .dict j _ => j
  | .hvar j _ => j

inductive SOut where
  | loaded (o : HOut)
  | dict (o : Out)
  | hvar (o : HOut)
deriving Repr, DecidableEq

/-- what an operation does to the maps of the program it is issued on -/
def instStep (D : DictDecl) (stack0 : Bytes) (vars : List HVar) (x : Inst) : SOp → Inst × SOut
  | .new _ => ({ dict := [], hv := (hvStep vars [] .load).1 }, .loaded (hvStep vars [] .load).2)
  | .dict _ op => ({ x with dict := (cStep D stack0 x.dict op).1 }, .dict (cStep D stack0 x.dict op).2)
  | .hvar _ op => ({ x with hv := (hvStep vars x.hv op).1 }, .hvar (hvStep vars x.hv op).2)

/-- all programs, by number (programs never created hold empty maps) -/
abbrev Sys := Nat → Inst

def setInst (s : Sys) (j : Nat) (x : Inst) : Sys := fun i => if i = j then x else s i

def sysStep (D : DictDecl) (stack0 : Bytes) (vars : List HVar) (s : Sys) (op : SOp) : Sys × SOut :=
  (setInst s op.inst (instStep D stack0 vars (s op.inst) op).1, (instStep D stack0 vars (s op.inst) op).2)

/-- the observations of a run, each tagged with the program it was made on -/
def sysRun (D : DictDecl) (stack0 : Bytes) (vars : List HVar) : Sys → List SOp → Sys × List (Nat × SOut)
  | s, [] => (s, [])
  | s, op :: ops =>
    ((sysRun D stack0 vars (sysStep D stack0 vars s op).1 ops).1,
     (op.inst, (sysStep D stack0 vars s op).2) :: (sysRun D stack0 vars (sysStep D stack0 vars s op).1 ops).2)

/-- one program run on its own -/
def instRun (D : DictDecl) (stack0 : Bytes) (vars : List HVar) : Inst → List SOp → Inst × List SOut
  | x, [] => (x, [])
  | x, op :: ops =>
    ((instRun D stack0 vars (instStep D stack0 vars x op).1 ops).1,
     (instStep D stack0 vars x op).2 :: (instRun D stack0 vars (instStep D stack0 vars x op).1 ops).2)

def emptySys : Sys := fun _ => { dict := [], hv := [] }

/-! ### the objects Python keeps

`table[k]`, `table.pop(k)` and every key that `list(table)` yields are `Structure` objects whose `data` is a
buffer of their own, filled by the system call (`bpf._lookup_elem`, `bpf.get_next_key`: a fresh `bytearray`
per call).  The caller may keep them while it goes on using this or another table, may change their members
(`obj.m_j = x`: `pack_into` on the object's own buffer) and may store a kept value again (`table[k] = obj`:
`update_elem(fd, key.data, obj.data)`).  The heap lists the buffers of the kept objects, oldest first. -/

structure Heap where
  vals : List Bytes
  keys : List Bytes
deriving Repr

/-- the value objects an operation hands to Python -/
def keptValsAt (m : KMap) : Option Bytes → List Bytes
  | some kb => (lookup m kb).toList
  | none => []

def keptVals (D : DictDecl) (m : KMap) : Op → List Bytes
  | .pyGet k => keptValsAt m (pyStruct D.keyFmts k)
  | .pyPop k => keptValsAt m (pyStruct D.keyFmts k)
  | _ => []

/-- the key objects an operation hands to Python -/
def keptKeys (m : KMap) : Op → List Bytes
  | .pyIter => m.map Prod.fst
  | _ => []

def Heap.keep (h : Heap) (D : DictDecl) (s : Nat → Inst) : SOp → Heap
  | .dict j o => { vals := h.vals ++ keptVals D (s j).dict o, keys := h.keys ++ keptKeys (s j).dict o }
  | _ => h

/-- `obj.m_j = x` on the object's own buffer: `pack_into(fmt, data, rel, x)`.  CPython's `pack_into` clears the
target bytes before it converts the argument, so an assignment that raises `struct.error` (`false`) leaves the
member zero; a member that does not exist is an `AttributeError` on the way, nothing is written -/
def setMemberAt (data : Bytes) (off : Nat) (x : Int) : Option Fmt → Bytes × Bool
  | none => (data, false)
  | some f => if f.fits x then (setRange data off (f.enc x), true) else (setRange data off (zeros f.size), false)

def setMember (fs : List Fmt) (data : Bytes) (j : Nat) (x : Int) : Bytes × Bool :=
  setMemberAt data (structSize (fs.take j)) x fs[j]?

inductive POp where
  | sys (op : SOp)                                 -- any operation; Python keeps every object it returns
  | recheck                                        -- look at the members of every kept object again
  | modVal (i j : Nat) (x : Int)                   -- `vals[i mod n].m_j = x`
  | modKey (i j : Nat) (x : Int)                   -- `keys[i mod n].m_j = x`
  | store (inst : Nat) (k : List Int) (i : Nat)    -- `table[Key(k)] = vals[i mod n]` on program `inst`
deriving Repr

inductive POut where
  | sys (o : SOut)
  | held (vals keys : List (List Int))
  | ok | structError | noObject
  | stored (o : Out)
deriving Repr, DecidableEq

def modObj (fs : List Fmt) (objs : List Bytes) (i j : Nat) (x : Int) : List Bytes × POut :=
  if objs.length = 0 then (objs, .noObject)
  else (objs.set (i % objs.length) (setMember fs (objs.getD (i % objs.length) []) j x).1,
        if (setMember fs (objs.getD (i % objs.length) []) j x).2 then .ok else .structError)

/-- `update_elem(fd, Key(k).data, obj.data)` -/
def storeRaw (D : DictDecl) (m : KMap) (vb : Bytes) : Option Bytes → KMap × Out
  | none => (m, .structError)
  | some kb =>
    ((update D.maxEntries m kb vb 0).1,
     if (update D.maxEntries m kb vb 0).2 = 0 then .ok
     else if (update D.maxEntries m kb vb 0).2 = -E2BIG then .full else .osError)

abbrev PState := Sys × Heap

def pStep (D : DictDecl) (stack0 : Bytes) (vars : List HVar) (w : PState) : POp → PState × POut
  | .sys op => (((sysStep D stack0 vars w.1 op).1, w.2.keep D w.1 op), .sys (sysStep D stack0 vars w.1 op).2)
  | .recheck => (w, .held (w.2.vals.map (readMembers 0 D.valFmts)) (w.2.keys.map (readMembers 0 D.keyFmts)))
  | .modVal i j x => ((w.1, { w.2 with vals := (modObj D.valFmts w.2.vals i j x).1 }), (modObj D.valFmts w.2.vals i j x).2)
  | .modKey i j x => ((w.1, { w.2 with keys := (modObj D.keyFmts w.2.keys i j x).1 }), (modObj D.keyFmts w.2.keys i j x).2)
  | .store inst k i =>
    if w.2.vals.length = 0 then (w, .noObject)
    else
      ((setInst w.1 inst { w.1 inst with dict :=
          (storeRaw D (w.1 inst).dict (w.2.vals.getD (i % w.2.vals.length) []) (pyStruct D.keyFmts k)).1 }, w.2),
       .stored (storeRaw D (w.1 inst).dict (w.2.vals.getD (i % w.2.vals.length) []) (pyStruct D.keyFmts k)).2)

def pRun (D : DictDecl) (stack0 : Bytes) (vars : List HVar) : PState → List POp → PState × List POut
  | w, [] => (w, [])
  | w, op :: ops =>
    ((pRun D stack0 vars (pStep D stack0 vars w op).1 ops).1,
     (pStep D stack0 vars w op).2 :: (pRun D stack0 vars (pStep D stack0 vars w op).1 ops).2)

def emptyHeap : Heap := ⟨[], []⟩

end Ebv.HashVars
