import Ebv.Generated.Consts
/-! Model of the mailbox locks of ebpfcat/lock.py.

(a) `MailboxLock.next_counter` / `ParallelMailboxLock.next_counter`: `ret = counter; counter = ret % 7 + 1`.
(b) In-process users: `async with mbx_lock:` around n × (mbx_send with `next_counter()`, mbx_recv), with
    `asyncio.Lock` semantics (acquire succeeds at once only if unlocked and nobody waits; otherwise the task
    joins a FIFO of waiters; release wakes the first waiter, which takes the lock when it next runs).
    A schedule is the list of task numbers the event loop runs, one model step each.
(c) Cross-process users: `LockFile.__init__` (create, then ftruncate to one byte per address) and
    `ParallelMailboxLock.__aenter__/__aexit__` (asyncio task lock around the record lock; a short read is
    counter 0) transcribed file operation by file operation over an abstract file (exists, bytes, owner of the
    record lock on the terminal's byte — POSIX record locks belong to the *process*).  Participants are (process, task) pairs,
    a schedule is a list of such pairs; a process is single threaded, so between two file operations that
    the code performs without an `await` only the same task can continue.

(d) Blocks that FAIL or are CANCELLED (`Sec`): `asyncio.Lock.__aexit__` and `ParallelMailboxLock.__aexit__` do the
    same whatever exception leaves the block, so an error between two exchanges is a block with fewer exchanges; an
    exception while a request is out (abort answer that raises, unprocessed datagram, timeout, `Task.cancel()` at any
    await once the header is queued) is the step `abort`: the request stays unanswered, the counter it used stays used.

The modulus and the start value are regenerated from /repo (`Consts.mbxMod`, `Consts.mbxStart`). -/
namespace Ebv.Mbx
open Ebv.Consts

/-! ### (a) the counter -/

/-- the value `next_counter` stores for the following call -/
def nextCounter (c : Nat) : Nat := c % mbxMod + 1

/-- the values returned by `n` successive calls of `next_counter` starting with stored counter `c` -/
def counters : Nat → Nat → List Nat
  | _, 0 => []
  | c, n + 1 => c :: counters (nextCounter c) n

/-! ### (b) tasks of one process sharing a `MailboxLock` -/

inductive Step where
  | acq | send | recv | rel
  | abort    -- the block is left by an exception while a request is out: abort answer / error / timeout / cancellation
deriving Repr, DecidableEq

/-- one `async with lock:` block: `n` complete exchanges; with `cut`, one more request is sent and the block is then
left by an exception — the terminal's answer is an abort that raises before the response is taken, a datagram is not
processed, the waiting task times out or is cancelled — so that this request stays unanswered.  A block that fails
*between* two exchanges (before its next request was written, or after a response was read) is a block with fewer
exchanges: neither lock class looks at the exception when the block is left. -/
structure Sec where
  n : Nat
  cut : Bool
deriving Repr, DecidableEq

instance (n : Nat) : OfNat Sec n := ⟨{ n := n, cut := false }⟩

/-- the messages a block puts on the bus -/
def Sec.messages (x : Sec) : Nat := x.n + (if x.cut then 1 else 0)

/-- the messages the blocks of a task put on the bus, the abandoned requests included -/
def secMessages (xs : List Sec) : Nat := (xs.map Sec.messages).sum

/-- `async with lock:` around `n` exchanges -/
def exchanges : Nat → List Step
  | 0 => []
  | n + 1 => .send :: .recv :: exchanges n

/-- how a block ends: normally, or by the exception that abandons the request that is out -/
def ending (cut : Bool) (last : List Step) : List Step := if cut then .send :: .abort :: last else last

def critical (x : Sec) : List Step := .acq :: (exchanges x.n ++ ending x.cut [.rel])

/-- a task performing one critical section per entry -/
def prog : List Sec → List Step
  | [] => []
  | x :: xs => critical x ++ prog xs

inductive Ev where
  | acq (t : Nat)                 -- `__aenter__` returned in task t
  | send (t : Nat) (c : Nat)      -- a message with counter c leaves
  | recv (t : Nat)
  | rel (t : Nat)                 -- `__aexit__`
  | err (t : Nat)                 -- `assert self.locked()` failed
  | abort (t : Nat)               -- the exception that ends the block leaves the request of `t` unanswered
deriving Repr, DecidableEq

structure St where
  locked : Bool
  woken : Bool               -- the first waiter's future has its result, the task has not run yet
  waiters : List Nat         -- FIFO
  counter : Nat
  progs : Nat → List Step    -- what each task still has to do

def setProg (f : Nat → List Step) (t : Nat) (p : List Step) : Nat → List Step :=
  fun u => if u = t then p else f u

def init (tasks : List (List Sec)) : St :=
  { locked := false, woken := false, waiters := [], counter := mbxStart,
    progs := fun t => prog (tasks.getD t []) }

/-- the event loop runs task `t` up to its next suspension point -/
def step (s : St) (t : Nat) : St × List Ev :=
  match s.progs t with
  | [] => (s, [])
  | .acq :: r =>
    if t ∈ s.waiters then
      -- suspended in `await fut`; it continues only once `release` has set the result of *its* future
      if s.woken && s.waiters.head? == some t then
        ({ s with locked := true, woken := false, waiters := s.waiters.drop 1, progs := setProg s.progs t r }, [.acq t])
      else (s, [])
    else if !s.locked && s.waiters.isEmpty then
      ({ s with locked := true, progs := setProg s.progs t r }, [.acq t])
    else ({ s with waiters := s.waiters ++ [t] }, [])
  | .send :: r =>
    if s.locked then
      ({ s with counter := nextCounter s.counter, progs := setProg s.progs t r }, [.send t s.counter])
    else ({ s with progs := setProg s.progs t [] }, [.err t])
  | .recv :: r => ({ s with progs := setProg s.progs t r }, [.recv t])
  | .rel :: r =>
    ({ s with locked := false, woken := !s.waiters.isEmpty, progs := setProg s.progs t r }, [.rel t])
  | .abort :: r => ({ s with progs := setProg s.progs t r }, [.abort t])

def run (s : St) : List Nat → List Ev
  | [] => []
  | t :: ts => (step s t).2 ++ run (step s t).1 ts

/-- the state after a schedule (for the driver: lock ownership) -/
def after (s : St) : List Nat → St
  | [] => s
  | t :: ts => after (step s t).1 ts

/-! #### what "serialised and counted" means on a trace -/

structure Chk where
  holder : Option Nat     -- the task inside its critical section
  last : Option Nat       -- counter of the latest message of anybody
  pend : Bool             -- a request is out, its response not yet read
deriving Repr, DecidableEq

/-- successor in the cycle 1,2,…,mbxMod,1,… (0 is followed by 1) -/
def follows (last : Option Nat) (c : Nat) : Bool :=
  match last with
  | none => c ≤ mbxMod
  | some l => c == nextCounter l

def chk1 (k : Chk) : Ev → Option Chk
  | .acq t => if k.holder.isNone then some { k with holder := some t } else none
  | .send t c =>
    if k.holder == some t && !k.pend && follows k.last c then some { k with last := some c, pend := true } else none
  | .recv t => if k.holder == some t && k.pend then some { k with pend := false } else none
  | .rel t => if k.holder == some t && !k.pend then some { k with holder := none } else none
  | .err _ => none
  | .abort t => if k.holder == some t && k.pend then some { k with pend := false } else none

def check (k : Chk) : List Ev → Bool
  | [] => true
  | e :: es => match chk1 k e with
    | some k' => check k' es
    | none => false

def chk0 : Chk := { holder := none, last := none, pend := false }

/-- the counters of all messages, in the order they leave -/
def sent : List Ev → List Nat
  | [] => []
  | .send _ c :: es => c :: sent es
  | _ :: es => sent es

/-- the counter of the latest message on the bus (`l` if none left) -/
def lastFrom (l : Option Nat) : List Ev → Option Nat
  | [] => l
  | .send _ c :: es => lastFrom (some c) es
  | _ :: es => lastFrom l es

/-! #### operations that are retried after a failed attempt

`mbx_send` first reads the status of the out mailbox, fetches mail nobody asked for, checks that an out
mailbox is configured — and only then takes a counter and writes the message.  An attempt of an operation
that fails at one of these points, when it is about to send its (k+1)-th message, has sent k messages: it
is a critical section with k exchanges (`async with` releases the lock on the exception).  The caller (or
anybody else) then tries again. -/

/-- one mailbox operation needing `n` exchanges, with the exchange counts of the attempts that failed first -/
structure Op where
  n : Nat
  fails : List Nat
deriving Repr, DecidableEq

/-- the critical sections an operation amounts to -/
def Op.sections (o : Op) : List Sec := (o.fails ++ [o.n]).map fun n => { n := n, cut := false }

def opSections (ops : List Op) : List Sec := ops.flatMap Op.sections

/-- the messages that really left for an operation -/
def Op.messages (o : Op) : Nat := o.fails.sum + o.n

def opMessages (ops : List Op) : Nat := (ops.map Op.messages).sum

/-- `.send` steps in a continuation -/
def sends : List Step → Nat
  | [] => 0
  | .send :: r => sends r + 1
  | _ :: r => sends r

/-- messages the first `n` tasks still have to send -/
def tot (n : Nat) (f : Nat → List Step) : Nat := ((List.range n).map fun t => sends (f t)).sum

/-! ### (c) processes sharing the lock file -/

inductive PStep where
  | enter     -- `await task_lock.acquire()` then `lockf(fd, LOCK_NB | LOCK_EX, 1, no)`; on OSError `await sleep(0)`, again
  | pread     -- `data = os.pread(fd, 1, no); counter = data[0] if data else 0`
  | send      -- `next_counter()` in `mbx_send`
  | recv
  | pwrite    -- `os.pwrite(fd, bytes((self.counter,)), no)`
  | unlock    -- `lockf(fd, LOCK_UN, 1, no)`; `self.counter = None`; `task_lock.release()`
  | abort     -- the block is left by an exception while a request is out; `__aexit__` (pwrite, unlock) follows
deriving Repr, DecidableEq

def exchangesX : Nat → List PStep
  | 0 => []
  | n + 1 => .send :: .recv :: exchangesX n

def endingX (cut : Bool) (last : List PStep) : List PStep := if cut then .send :: .abort :: last else last

/-- `async with ParallelMailboxLock:` around the exchanges of `x`; `__aexit__` is the same however the block is left -/
def criticalX (x : Sec) : List PStep := .enter :: .pread :: (exchangesX x.n ++ endingX x.cut [.pwrite, .unlock])

def progX : List Sec → List PStep
  | [] => []
  | x :: xs => criticalX x ++ progX xs

/-- where a process is in `LockFile.__init__` -/
inductive InitSt where
  | fresh      -- before `os.open(O_CREAT | O_EXCL)`
  | created    -- it created the file, `os.ftruncate(fd, maximum - minimum + 1)` still to come
  | opening    -- FileExistsError, `os.open(O_RDWR)` still to come
  | ready
deriving Repr, DecidableEq

structure Proc where
  init : InitSt
  ctr : Option Nat            -- `ParallelMailboxLock.counter` of the lock object the process's tasks share
  busy : Option Nat           -- the task that is between two operations without an `await`
  tholder : Option Nat        -- the task holding `task_lock`
  twoken : Bool               -- `release` has set the result of the first waiter's future
  twaiters : List Nat         -- FIFO of tasks suspended in `task_lock.acquire()`
  progs : Nat → List PStep    -- what each task still has to do

structure File where
  present : Bool
  data : List Nat
  owner : Option Nat          -- the process holding the record lock on byte `off`

structure XSt where
  size : Nat                  -- maximum - minimum (the file gets size + 1 bytes)
  off : Nat                   -- no - minimum
  file : File
  procs : Nat → Proc

inductive XEv where
  | creat (p : Nat) (ok : Bool)
  | opened (p : Nat)
  | winit (p : Nat)              -- the creator's ftruncate
  | lockOk (p t : Nat)
  | lockBusy (p t : Nat)
  | pread (p t v : Nat)
  | preadEmpty (p t : Nat)       -- short read: the counter is 0
  | send (p t c : Nat)
  | sendNone (p t : Nat)         -- `None % 7`: TypeError (and `__aexit__` raises TypeError as well)
  | recv (p t : Nat)
  | pwrite (p t c : Nat)
  | pwriteNone (p t : Nat)       -- `bytes((None,))`: TypeError out of `__aexit__`
  | unlock (p t : Nat)
  | abort (p t : Nat)            -- the exception that ends the block leaves the request of (p, t) unanswered
deriving Repr, DecidableEq

/-- `os.ftruncate(fd, n)` on a file that is not longer than `n`: zeros are appended, nothing is overwritten -/
def truncTo (data : List Nat) (n : Nat) : List Nat := data ++ List.replicate (n - data.length) 0

/-- `os.pwrite` of one byte (a hole before it reads as zeros) -/
def putByte (data : List Nat) (off v : Nat) : List Nat :=
  if off < data.length then data.set off v else data ++ List.replicate (off - data.length) 0 ++ [v]

/-- the counter `__aenter__` obtains from the file: a short read counts as 0 -/
def cur (data : List Nat) (off : Nat) : Nat := (data[off]?).getD 0

def setProc (f : Nat → Proc) (p : Nat) (P : Proc) : Nat → Proc := fun q => if q = p then P else f q

def contProg (P : Proc) (t : Nat) (r : List PStep) : Nat → List PStep := fun u => if u = t then r else P.progs u

def initX (size off : Nat) (file : Option (List Nat)) (tasks : List (List (List Sec))) : XSt :=
  { size := size, off := off,
    file := match file with
      | none => { present := false, data := [], owner := none }
      | some d => { present := true, data := d, owner := none },
    procs := fun p => { init := .fresh, ctr := none, busy := none, tholder := none, twoken := false, twaiters := [],
                        progs := fun t => progX ((tasks.getD p []).getD t []) } }

/-- task `t` of process `p` holds the task lock (`P.tholder = some t`) and calls `lockf` -/
def tryLock (s : XSt) (p t : Nat) (P : Proc) (r : List PStep) : XSt × List XEv :=
  if s.file.owner.isSome && s.file.owner != some p then
    ({ s with procs := setProc s.procs p { P with busy := none } }, [.lockBusy p t])
  else ({ s with file := { s.file with owner := some p },
                 procs := setProc s.procs p { P with busy := some t, progs := contProg P t r } }, [.lockOk p t])

/-- the exception leaves through `__aexit__`'s `finally`: the task lock is released, the record lock is not -/
def dies (P : Proc) (t : Nat) : Proc :=
  { P with busy := none, tholder := none, twoken := !P.twaiters.isEmpty, progs := contProg P t [] }

/-- process `p` runs; if it is free to choose, it continues task `t` -/
def stepX (s : XSt) (pt : Nat × Nat) : XSt × List XEv :=
  let p := pt.1
  let t := pt.2
  let P := s.procs p
  match P.init with
  | .fresh =>
    if s.file.present then ({ s with procs := setProc s.procs p { P with init := .opening } }, [.creat p false])
    else ({ s with file := { s.file with present := true, data := [] },
                   procs := setProc s.procs p { P with init := .created } }, [.creat p true])
  | .created =>
    ({ s with file := { s.file with data := truncTo s.file.data (s.size + 1) },
              procs := setProc s.procs p { P with init := .ready } }, [.winit p])
  | .opening => ({ s with procs := setProc s.procs p { P with init := .ready } }, [.opened p])
  | .ready =>
    if P.busy.isSome && P.busy != some t then (s, []) else
    match P.progs t with
    | [] => (s, [])
    | .enter :: r =>
      if P.tholder == some t then tryLock s p t P r
      else if t ∈ P.twaiters then
        if P.twoken && P.twaiters.head? == some t then
          -- resumed from `await fut`: it owns the task lock and runs on to `lockf` without another `await`
          let P' : Proc := { P with tholder := some t, twoken := false, twaiters := P.twaiters.drop 1, busy := some t }
          ({ s with procs := setProc s.procs p P' }, [])
        else (s, [])
      else if P.tholder.isNone && P.twaiters.isEmpty then tryLock s p t { P with tholder := some t } r
      else ({ s with procs := setProc s.procs p { P with twaiters := P.twaiters ++ [t] } }, [])
    | .pread :: r =>
      let P' : Proc := { P with ctr := some (cur s.file.data s.off), busy := none, progs := contProg P t r }
      ({ s with procs := setProc s.procs p P' },
       [match s.file.data[s.off]? with | none => .preadEmpty p t | some v => .pread p t v])
    | .send :: r =>
      match P.ctr with
      | none => ({ s with procs := setProc s.procs p (dies P t) }, [.sendNone p t])
      | some c => ({ s with procs := setProc s.procs p { P with ctr := some (nextCounter c), progs := contProg P t r } },
                   [.send p t c])
    | .recv :: r => ({ s with procs := setProc s.procs p { P with progs := contProg P t r } }, [.recv p t])
    | .abort :: r => ({ s with procs := setProc s.procs p { P with progs := contProg P t r } }, [.abort p t])
    | .pwrite :: r =>
      match P.ctr with
      | none => ({ s with procs := setProc s.procs p (dies P t) }, [.pwriteNone p t])
      | some c => ({ s with file := { s.file with data := putByte s.file.data s.off c },
                            procs := setProc s.procs p { P with busy := some t, progs := contProg P t r } },
                   [.pwrite p t c])
    | .unlock :: r =>
      let P' : Proc := { P with ctr := none, busy := none, tholder := none, twoken := !P.twaiters.isEmpty,
                                progs := contProg P t r }
      ({ s with file := { s.file with owner := if s.file.owner == some p then none else s.file.owner },
                procs := setProc s.procs p P' }, [.unlock p t])

def runX (s : XSt) : List (Nat × Nat) → List XEv
  | [] => []
  | pt :: rest => (stepX s pt).2 ++ runX (stepX s pt).1 rest

def afterX (s : XSt) : List (Nat × Nat) → XSt
  | [] => s
  | pt :: rest => afterX (stepX s pt).1 rest

structure XChk where
  holder : Option (Nat × Nat)
  last : Option Nat
  pend : Bool
deriving Repr, DecidableEq

/-- "serialised and counted" for users identified by (process, task); a user that fails is a violation -/
def xchk1 (k : XChk) : XEv → Option XChk
  | .creat _ _ => some k
  | .opened _ => some k
  | .winit _ => some k
  | .lockBusy _ _ => some k
  | .lockOk p t => if k.holder.isNone then some { k with holder := some (p, t) } else none
  | .pread p t v => if k.holder == some (p, t) && decide (v ≤ mbxMod) then some k else none
  | .preadEmpty p t => if k.holder == some (p, t) then some k else none
  | .send p t c =>
    if k.holder == some (p, t) && !k.pend && follows k.last c then some { k with last := some c, pend := true } else none
  | .sendNone _ _ => none
  | .recv p t => if k.holder == some (p, t) && k.pend then some { k with pend := false } else none
  | .pwrite p t _ => if k.holder == some (p, t) && !k.pend then some k else none
  | .pwriteNone _ _ => none
  | .unlock p t => if k.holder == some (p, t) then some { k with holder := none } else none
  | .abort p t => if k.holder == some (p, t) && k.pend then some { k with pend := false } else none

def checkX (k : XChk) : List XEv → Bool
  | [] => true
  | e :: es => match xchk1 k e with
    | some k' => checkX k' es
    | none => false

def xchk0 : XChk := { holder := none, last := none, pend := false }

/-- the counter of the latest message on the bus (`l` if none left) -/
def lastFromX (l : Option Nat) : List XEv → Option Nat
  | [] => l
  | .send _ _ c :: es => lastFromX (some c) es
  | _ :: es => lastFromX l es

/-- the byte of the terminal (0 if the file is shorter) is a counter -/
def fileOk (off : Nat) (data : List Nat) : Bool := decide (cur data off ≤ mbxMod)

/-- `assert minimum <= no <= maximum` in `ParallelMailboxLock.__init__` -/
def lockCtorOk (lo hi no : Nat) : Bool := decide (lo ≤ no) && decide (no ≤ hi)

end Ebv.Mbx
