import Ebv.Generated.Consts
/-! Model of the mailbox locks of ebpfcat/lock.py.

(a) `MailboxLock.next_counter` / `ParallelMailboxLock.next_counter`: `ret = counter; counter = ret % 7 + 1`.
(b) In-process users: `async with mbx_lock:` around n × (mbx_send with `next_counter()`, mbx_recv), with
    `asyncio.Lock` semantics (acquire succeeds at once only if unlocked and nobody waits; otherwise the task
    joins a FIFO of waiters; release wakes the first waiter, which takes the lock when it next runs).
    A schedule is the list of task numbers the event loop runs, one model step each.
(c) Cross-process users: `LockFile.__init__` and `ParallelMailboxLock.__aenter__/__aexit__` transcribed file
    operation by file operation over an abstract file (exists, bytes, owner of the record lock on the
    terminal's byte — POSIX record locks belong to the *process*).  Participants are (process, task) pairs,
    a schedule is a list of such pairs; a process is single threaded, so between two file operations that
    the code performs without an `await` only the same task can continue.

The modulus and the start value are regenerated from /repo (`Consts.mbxMod`, `Consts.mbxStart`). -/
namespace Ebv.Mbx
open Ebv.Consts

/-! ### (a) the counter -/

/-- the value `next_counter` stores for the following call -/
def nextCounter (c : Nat) : Nat := c % mbxMod + 1

/-- the values returned by `n` successive calls of `next_counter` starting with stored counter `c` -/
def counters : Nat → Nat → List Nat
  | _, 0 => []
  | c, n + 1 => c :: counters (nextCounter c) n

/-! ### (b) tasks of one process sharing a `MailboxLock` -/

inductive Step where
  | acq | send | recv | rel
deriving Repr, DecidableEq

/-- `async with lock:` around `n` exchanges -/
def exchanges : Nat → List Step
  | 0 => []
  | n + 1 => .send :: .recv :: exchanges n

def critical (n : Nat) : List Step := .acq :: (exchanges n ++ [.rel])

/-- a task performing one critical section per entry, with that many exchanges -/
def prog : List Nat → List Step
  | [] => []
  | n :: ns => critical n ++ prog ns

inductive Ev where
  | acq (t : Nat)                 -- `__aenter__` returned in task t
  | send (t : Nat) (c : Nat)      -- a message with counter c leaves
  | recv (t : Nat)
  | rel (t : Nat)                 -- `__aexit__`
  | err (t : Nat)                 -- `assert self.locked()` failed
deriving Repr, DecidableEq

structure St where
  locked : Bool
  woken : Bool               -- the first waiter's future has its result, the task has not run yet
  waiters : List Nat         -- FIFO
  counter : Nat
  progs : Nat → List Step    -- what each task still has to do

def setProg (f : Nat → List Step) (t : Nat) (p : List Step) : Nat → List Step :=
  fun u => if u = t then p else f u

def init (tasks : List (List Nat)) : St :=
  { locked := false, woken := false, waiters := [], counter := mbxStart,
    progs := fun t => prog (tasks.getD t []) }

/-- the event loop runs task `t` up to its next suspension point -/
def step (s : St) (t : Nat) : St × List Ev :=
  match s.progs t with
  | [] => (s, [])
  | .acq :: r =>
    if t ∈ s.waiters then
      -- suspended in `await fut`; it continues only once `release` has set the result of *its* future
      if s.woken && s.waiters.head? == some t then
        ({ s with locked := true, woken := false, waiters := s.waiters.drop 1, progs := setProg s.progs t r }, [.acq t])
      else (s, [])
    else if !s.locked && s.waiters.isEmpty then
      ({ s with locked := true, progs := setProg s.progs t r }, [.acq t])
    else ({ s with waiters := s.waiters ++ [t] }, [])
  | .send :: r =>
    if s.locked then
      ({ s with counter := nextCounter s.counter, progs := setProg s.progs t r }, [.send t s.counter])
    else ({ s with progs := setProg s.progs t [] }, [.err t])
  | .recv :: r => ({ s with progs := setProg s.progs t r }, [.recv t])
  | .rel :: r =>
    ({ s with locked := false, woken := !s.waiters.isEmpty, progs := setProg s.progs t r }, [.rel t])

def run (s : St) : List Nat → List Ev
  | [] => []
  | t :: ts => (step s t).2 ++ run (step s t).1 ts

/-- the state after a schedule (for the driver: lock ownership) -/
def after (s : St) : List Nat → St
  | [] => s
  | t :: ts => after (step s t).1 ts

/-! #### what "serialised and counted" means on a trace -/

structure Chk where
  holder : Option Nat     -- the task inside its critical section
  last : Option Nat       -- counter of the latest message of anybody
  pend : Bool             -- a request is out, its response not yet read
deriving Repr, DecidableEq

/-- successor in the cycle 1,2,…,mbxMod,1,… (0 is followed by 1) -/
def follows (last : Option Nat) (c : Nat) : Bool :=
  match last with
  | none => c ≤ mbxMod
  | some l => c == nextCounter l

def chk1 (k : Chk) : Ev → Option Chk
  | .acq t => if k.holder.isNone then some { k with holder := some t } else none
  | .send t c =>
    if k.holder == some t && !k.pend && follows k.last c then some { k with last := some c, pend := true } else none
  | .recv t => if k.holder == some t && k.pend then some { k with pend := false } else none
  | .rel t => if k.holder == some t && !k.pend then some { k with holder := none } else none
  | .err _ => none

def check (k : Chk) : List Ev → Bool
  | [] => true
  | e :: es => match chk1 k e with
    | some k' => check k' es
    | none => false

def chk0 : Chk := { holder := none, last := none, pend := false }

/-- the counters of all messages, in the order they leave -/
def sent : List Ev → List Nat
  | [] => []
  | .send _ c :: es => c :: sent es
  | _ :: es => sent es

end Ebv.Mbx
