/-! Byte-level codec shared by the frame, mailbox, EEPROM and process-data models:
little/big-endian fixed-width integers as `struct.pack('<H', v)` etc. produce them,
two's complement, slices and in-place range updates.  Core Lean only. -/
namespace Ebv.Bytes

/-- `n` bytes, little endian, of `v mod 256^n` -/
def encLE : Nat → Nat → List UInt8
  | 0, _ => []
  | n + 1, v => UInt8.ofNat (v % 256) :: encLE n (v / 256)

def decLE : List UInt8 → Nat
  | [] => 0
  | b :: bs => b.toNat + 256 * decLE bs

def encBE (n v : Nat) : List UInt8 := (encLE n v).reverse
def decBE (bs : List UInt8) : Nat := decLE bs.reverse

/-- two's complement reading of an `n`-byte unsigned value -/
def toSigned (n v : Nat) : Int := if v < 2 ^ (8 * n - 1) then (v : Int) else (v : Int) - 2 ^ (8 * n)
/-- the `n`-byte unsigned image of an integer -/
def ofSigned (n : Nat) (i : Int) : Nat := (i % 2 ^ (8 * n)).toNat

/-- does `v` fit the unsigned `n`-byte format (what `struct.pack` accepts for B H I Q) -/
def fitsU (n : Nat) (v : Int) : Bool := 0 ≤ v && v < 2 ^ (8 * n)
/-- does `v` fit the signed `n`-byte format (b h i q) -/
def fitsS (n : Nat) (v : Int) : Bool := -(2 ^ (8 * n - 1)) ≤ v && v < 2 ^ (8 * n - 1)

/-- Python slice `bs[a:b]` for `0 ≤ a`, `0 ≤ b` -/
def slice (bs : List UInt8) (a b : Nat) : List UInt8 := (bs.drop a).take (b - a)

/-- `bs[a:a+len new] = new` (requires `a + new.length ≤ bs.length` to keep the length) -/
def setRange (bs : List UInt8) (a : Nat) (new : List UInt8) : List UInt8 :=
  bs.take a ++ new ++ bs.drop (a + new.length)

def zeros (n : Nat) : List UInt8 := List.replicate n 0

@[simp] theorem length_encLE (n v : Nat) : (encLE n v).length = n := by
  induction n generalizing v with
  | zero => rfl
  | succ n ih => simp [encLE, ih]

@[simp] theorem length_encBE (n v : Nat) : (encBE n v).length = n := by simp [encBE]

theorem decLE_lt (bs : List UInt8) : decLE bs < 256 ^ bs.length := by
  induction bs with
  | nil => simp [decLE]
  | cons b bs ih =>
    have hb : b.toNat < 256 := b.toNat_lt
    simp only [decLE, List.length_cons, Nat.pow_succ]
    omega

theorem decLE_encLE (n v : Nat) (h : v < 256 ^ n) : decLE (encLE n v) = v := by
  induction n generalizing v with
  | zero => simp [encLE, decLE] at *; omega
  | succ n ih =>
    have h2 : v / 256 < 256 ^ n := by
      rw [Nat.pow_succ] at h
      exact Nat.div_lt_of_lt_mul (by omega)
    have : (UInt8.ofNat (v % 256)).toNat = v % 256 := by
      simp
    simp only [encLE, decLE, ih _ h2, this]
    omega

/-- without the range hypothesis the codec reduces modulo `256^n` -/
theorem decLE_encLE_mod (n v : Nat) : decLE (encLE n v) = v % 256 ^ n := by
  induction n generalizing v with
  | zero => simp [encLE, decLE, Nat.mod_one]
  | succ n ih =>
    have : (UInt8.ofNat (v % 256)).toNat = v % 256 := by
      simp
    simp only [encLE, decLE, ih, this, Nat.pow_succ]
    rw [Nat.mul_comm (256 ^ n) 256, Nat.mod_mul]

theorem encLE_decLE (bs : List UInt8) : encLE bs.length (decLE bs) = bs := by
  induction bs with
  | nil => rfl
  | cons b bs ih =>
    have hb : b.toNat < 256 := b.toNat_lt
    have h1 : (b.toNat + 256 * decLE bs) % 256 = b.toNat := by omega
    have h2 : (b.toNat + 256 * decLE bs) / 256 = decLE bs := by omega
    simp only [List.length_cons, encLE, decLE, h1, h2, ih]
    congr 1
    exact UInt8.ofNat_toNat

theorem decBE_encBE (n v : Nat) (h : v < 256 ^ n) : decBE (encBE n v) = v := by
  simp [decBE, encBE, decLE_encLE n v h]

theorem encBE_decBE (bs : List UInt8) : encBE bs.length (decBE bs) = bs := by
  have := encLE_decLE bs.reverse
  simp only [List.length_reverse] at this
  simp [encBE, decBE, this]

@[simp] theorem length_zeros (n : Nat) : (zeros n).length = n := by simp [zeros]

@[simp] theorem length_slice (bs : List UInt8) (a b : Nat) (h : b ≤ bs.length) :
    (slice bs a b).length = b - a := by
  simp [slice]; omega

theorem length_setRange (bs : List UInt8) (a : Nat) (new : List UInt8) (h : a + new.length ≤ bs.length) :
    (setRange bs a new).length = bs.length := by
  simp [setRange]; omega

/-- reading back the range just written gives the written bytes -/
theorem slice_setRange_same (bs : List UInt8) (a : Nat) (new : List UInt8) (h : a + new.length ≤ bs.length) :
    slice (setRange bs a new) a (a + new.length) = new := by
  have ha : a ≤ bs.length := by omega
  simp [slice, setRange, List.length_take, Nat.min_eq_left ha]

/-- a byte outside the written range is unchanged -/
theorem getElem?_setRange_outside (bs : List UInt8) (a : Nat) (new : List UInt8) (i : Nat)
    (h : a + new.length ≤ bs.length) (hi : i < a ∨ a + new.length ≤ i) :
    (setRange bs a new)[i]? = bs[i]? := by
  have ha : a ≤ bs.length := by omega
  unfold setRange
  rcases hi with hi | hi
  · rw [List.append_assoc, List.getElem?_append_left (by simp; omega)]
    simp [hi]
  · rw [List.getElem?_append_right (by simp; omega)]
    simp only [List.length_append, List.length_take, Nat.min_eq_left ha, List.getElem?_drop]
    congr 1; omega

/-- a byte inside the written range is the written byte -/
theorem getElem?_setRange_inside (bs : List UInt8) (a : Nat) (new : List UInt8) (i : Nat)
    (h : a + new.length ≤ bs.length) (hi : i < new.length) :
    (setRange bs a new)[a + i]? = new[i]? := by
  have ha : a ≤ bs.length := by omega
  unfold setRange
  rw [List.getElem?_append_left (by simp; omega)]
  rw [List.getElem?_append_right (by simp; omega)]
  simp [List.length_take, Nat.min_eq_left ha]

/-- a slice disjoint from the written range is unchanged -/
theorem slice_setRange_disjoint (bs : List UInt8) (a : Nat) (new : List UInt8) (c d : Nat)
    (h : a + new.length ≤ bs.length) (hd : d ≤ a ∨ a + new.length ≤ c) (hcd : c ≤ d) :
    slice (setRange bs a new) c d = slice bs c d := by
  apply List.ext_getElem?
  intro i
  simp only [slice, List.getElem?_take, List.getElem?_drop]
  split
  · apply getElem?_setRange_outside _ _ _ _ h
    omega
  · rfl

theorem toSigned_ofSigned (n : Nat) (hn : 0 < n) (i : Int) (h : fitsS n i = true) :
    toSigned n (ofSigned n i) = i := by
  simp only [fitsS, Bool.and_eq_true, decide_eq_true_eq] at h
  have hp : (2 : Int) ^ (8 * n) = 2 * 2 ^ (8 * n - 1) := by
    have : 8 * n = (8 * n - 1) + 1 := by omega
    rw [this, Int.pow_succ]; simp; omega
  have hpos : (0 : Int) < 2 ^ (8 * n - 1) := Int.pow_pos (by decide)
  unfold toSigned ofSigned
  by_cases h0 : 0 ≤ i
  · have hm : i % 2 ^ (8 * n) = i := Int.emod_eq_of_lt h0 (by omega)
    rw [hm]
    have hc : (i.toNat : Int) = i := Int.toNat_of_nonneg h0
    have hlt : i.toNat < 2 ^ (8 * n - 1) := by
      have : (i.toNat : Int) < ((2 ^ (8 * n - 1) : Nat) : Int) := by rw [hc]; push_cast; exact h.2
      exact Int.ofNat_lt.mp this
    simp [hlt, hc]
  · have hm : i % 2 ^ (8 * n) = i + 2 ^ (8 * n) := by
      have : i % 2 ^ (8 * n) = (i + 2 ^ (8 * n)) % 2 ^ (8 * n) := by simp
      rw [this]
      exact Int.emod_eq_of_lt (by omega) (by omega)
    rw [hm]
    have hnn : 0 ≤ i + 2 ^ (8 * n) := by omega
    have hc : ((i + 2 ^ (8 * n)).toNat : Int) = i + 2 ^ (8 * n) := Int.toNat_of_nonneg hnn
    have hge : ¬ (i + 2 ^ (8 * n)).toNat < 2 ^ (8 * n - 1) := by
      intro hlt
      have : ((i + 2 ^ (8 * n)).toNat : Int) < ((2 ^ (8 * n - 1) : Nat) : Int) := Int.ofNat_lt.mpr hlt
      rw [hc] at this; push_cast at this; omega
    simp [hge, hc]

end Ebv.Bytes
