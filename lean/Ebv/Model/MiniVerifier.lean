import Ebv.Model.Ebpf
/-! # `MiniV` — a small model of the Linux eBPF verifier rules the ebpfcat generator can run into (C05)

An abstract interpreter over register kinds and a stack-initialisation bitmap; one forward pass (all jumps of an
accepted program are forward, so states are joined at jump targets), followed by a *validation* pass
(`checkAt`) that re-checks that the computed table is inductive.  The soundness theorems of `Ebv.C05` only depend
on the validation pass.  The real verifier is NOT this model: bounds tracking, path sensitivity, pruning of dead
branches, helper prototypes per program type, alignment policy, complexity limits are not modelled (see DESIGN §4 C05).
Program type: XDP.  Encoding numbers are the kernel's instruction-set ABI (as in `Ebv.Ebpf`). -/
namespace Ebv.MiniV
open Ebv.Ebpf

/-! ## map geometry, kinds -/

inductive MapKind where
  | array | hash | progArray
deriving DecidableEq, Repr, Inhabited

structure MapInfo where
  kind : MapKind
  keySize : Nat
  valueSize : Nat
deriving DecidableEq, Repr, Inhabited

/-- map fd (the immediate of the pseudo LD_IMM64) → geometry -/
abbrev MapGeometry := List (Int × MapInfo)

def MapGeometry.find (g : MapGeometry) (fd : Int) : Option MapInfo := (g.find? (·.1 == fd)).map (·.2)

structure Config where
  /-- privileged loads (CAP_PERFMON) may read stack bytes never written -/
  allowUninitStack : Bool := false
deriving Repr, Inhabited

inductive Kind where
  | uninit
  | scalar (umax : Option Nat)                 -- `some n`: the unsigned 64-bit value is ≤ n
  | ctx
  | fp (off : Int)
  | mapfd (fd : Int)
  | mapvalOrNull (fd : Int) (id : Nat)
  | mapval (fd : Int) (off : Int) (offmax : Nat)   -- fixed offset + a variable part in [0, offmax]
  | pkt (off : Int) (range : Nat)
  | pktEnd
deriving DecidableEq, Repr, Inhabited

def Kind.isInit : Kind → Bool
  | .uninit => false
  | _ => true

def Kind.isPtr : Kind → Bool
  | .uninit => false
  | .scalar _ => false
  | _ => true

def Kind.name : Kind → String
  | .uninit => "uninit" | .scalar _ => "scalar" | .ctx => "ctx" | .fp _ => "fp" | .mapfd _ => "map_ptr"
  | .mapvalOrNull _ _ => "map_value_or_null" | .mapval _ _ _ => "map_value" | .pkt _ _ => "pkt" | .pktEnd => "pkt_end"

def boundLeq : Option Nat → Option Nat → Bool      -- first is weaker
  | none, _ => true
  | some _, none => false
  | some y, some x => x ≤ y

def boundJoin : Option Nat → Option Nat → Option Nat
  | some x, some y => some (max x y)
  | _, _ => none

/-- `leq b a`: `b` is at most as informative as `a` (everything allowed under `b` is allowed under `a`) -/
def Kind.leq : Kind → Kind → Bool
  | .uninit, _ => true
  | .scalar y, .scalar x => boundLeq y x
  | .mapval f o m, .mapval f' o' m' => f == f' && o == o' && m' ≤ m
  | .pkt o r, .pkt o' r' => o == o' && r ≤ r'
  | b, a => b == a

def Kind.join : Kind → Kind → Kind
  | .scalar x, .scalar y => .scalar (boundJoin x y)
  | .mapval f o m, .mapval f' o' m' => if f == f' && o == o' then .mapval f o (max m m') else .uninit
  | .pkt o r, .pkt o' r' => if o == o' then .pkt o (min r r') else .uninit
  | a, b => if a == b then a else .uninit

/-- registers r0..r10, the initialised bytes of the 512-byte frame (bit k = byte fp-512+k), and the 8-byte stack slots that
hold a spilled pointer (frame offset of the slot, kind) -/
structure AbsState where
  regs : List Kind
  stack : Nat
  spills : List (Int × Kind) := []
deriving DecidableEq, Repr, Inhabited

def AbsState.reg (a : AbsState) (r : Nat) : Kind := a.regs.getD r .uninit
def AbsState.set (a : AbsState) (r : Nat) (k : Kind) : AbsState := { a with regs := a.regs.set r k }

def initState : AbsState :=
  { regs := [.uninit, .ctx, .uninit, .uninit, .uninit, .uninit, .uninit, .uninit, .uninit, .uninit, .fp 0], stack := 0 }

def AbsState.leq (b a : AbsState) : Bool :=
  b.regs.length == 11 && (List.range 11).all (fun r => (b.reg r).leq (a.reg r)) &&
    ((b.stack &&& a.stack == b.stack) && b.spills.all (a.spills.contains ·))

def AbsState.join (a b : AbsState) : AbsState :=
  { regs := (List.range 11).map (fun r => (a.reg r).join (b.reg r)), stack := a.stack &&& b.stack,
    spills := a.spills.filter (b.spills.contains ·) }

/-! ## syntax: classes, registers read and written, successors -/

def cls (i : Insn) : Nat := i.op % 8
def code (i : Insn) : Nat := i.op / 16
def useReg (i : Insn) : Bool := (i.op / 8) % 2 == 1
def isAlu (i : Insn) : Bool := cls i == 7 || cls i == 4
def isJmpCls (i : Insn) : Bool := cls i == 5 || cls i == 6
def isCall (i : Insn) : Bool := cls i == 5 && code i == 8
def isExit (i : Insn) : Bool := cls i == 5 && code i == 9
def isJa (i : Insn) : Bool := i.op == 0x05
def isLdImm64 (i : Insn) : Bool := i.op == 0x18
/-- a jump with a target: JA or a conditional jump -/
def isJump (i : Insn) : Bool := isJmpCls i && !isCall i && !isExit i
def memMode (i : Insn) : Nat := i.op / 32
def isLdx (i : Insn) : Bool := cls i == 1
def isSt (i : Insn) : Bool := cls i == 2
def isStx (i : Insn) : Bool := cls i == 3
def isAtomic (i : Insn) : Bool := cls i == 3 && memMode i == 6

/-- helper prototypes of the helpers the generator emits: number of argument registers read, and whether r0 is set -/
def helperArgs (id : Int) : Option (Nat × Bool) :=
  if id == 1 then some (2, true)          -- map_lookup_elem(map, key)
  else if id == 2 then some (4, true)     -- map_update_elem(map, key, value, flags)
  else if id == 3 then some (2, true)     -- map_delete_elem(map, key)
  else if id == 5 then some (0, true)     -- ktime_get_ns()
  else if id == 7 then some (0, true)     -- get_prandom_u32()
  else if id == 12 then some (3, false)   -- tail_call(ctx, prog_array, index): returns nothing
  else none

/-- the registers an instruction reads -/
def reads (i : Insn) : List Nat :=
  if isAlu i then
    if code i == 11 then (if useReg i then [i.src] else [])           -- MOV
    else if code i == 8 || code i == 13 then [i.dst]                  -- NEG, END
    else if useReg i then [i.dst, i.src] else [i.dst]
  else if isJmpCls i then
    if isCall i then (match helperArgs i.imm with | some (n, _) => (List.range n).map (· + 1) | none => [])
    else if isExit i then [0]
    else if code i == 0 then []
    else if useReg i then [i.dst, i.src] else [i.dst]
  else if cls i == 0 then []
  else if isLdx i then [i.src]
  else if isSt i then [i.dst]
  else [i.dst, i.src]

/-- the registers an instruction writes -/
def defs (i : Insn) : List Nat :=
  if isAlu i then [i.dst]
  else if isCall i then (match helperArgs i.imm with | some (_, false) => [] | _ => [0])
  else if isJmpCls i then []
  else if isLdImm64 i || isLdx i then [i.dst]
  else []

/-- the registers an instruction leaves without a value -/
def kills (i : Insn) : List Nat := if isCall i then [1, 2, 3, 4, 5] else []

def target (pc : Nat) (i : Insn) : Nat := ((pc : Int) + 1 + i.off).toNat

/-- the program counters that can follow `pc` (mirrors `Ebv.Ebpf.step`) -/
def succPcs (pc : Nat) (i : Insn) : List Nat :=
  if isJmpCls i then
    if isCall i then [pc + 1]
    else if isExit i then []
    else if code i == 0 then [target pc i]
    else [pc + 1, target pc i]
  else if cls i == 0 then [pc + 2]
  else [pc + 1]

/-! ## rule 5 / rule 7: well-formed instructions and control flow -/

def aluWidth (i : Insn) : Nat := if cls i == 7 then 64 else 32

/-- opcode in the modelled subset, reserved fields zero, registers in range, immediates legal -/
def wfInsn (i : Insn) : Bool :=
  i.dst ≤ 10 && i.src ≤ 10 &&
  if isAlu i then
    i.dst ≤ 9 && i.off == 0 &&
    if code i == 13 then i.src == 0 && (i.imm == 16 || i.imm == 32 || i.imm == 64) && (cls i == 4)
    else if code i == 8 then i.src == 0 && i.imm == 0 && !useReg i
    else code i ≤ 12 &&
      (if useReg i then i.imm == 0
       else i.src == 0 &&
         (if code i == 6 || code i == 7 || code i == 12 then decide (0 ≤ i.imm) && decide (i.imm < aluWidth i)
          else if code i == 3 || code i == 9 then i.imm != 0 else true))
  else if isJmpCls i then
    if isCall i then i.op == 0x85 && i.dst == 0 && i.src == 0 && i.off == 0
    else if isExit i then i.op == 0x95 && i.dst == 0 && i.src == 0 && i.off == 0 && i.imm == 0
    else if code i == 0 then isJa i && i.dst == 0 && i.src == 0 && i.imm == 0
    else (code i ≤ 7 || (10 ≤ code i && code i ≤ 13)) && code i != 0 && (if useReg i then i.imm == 0 else i.src == 0)
  else if cls i == 0 then isLdImm64 i && i.dst ≤ 9 && i.off == 0 && (i.src == 0 || i.src == 1)
  else if isLdx i then memMode i == 3 && i.dst ≤ 9 && i.imm == 0
  else if isSt i then memMode i == 3 && i.src == 0
  else (memMode i == 3 && i.imm == 0) || (memMode i == 6 && i.imm == 0 && (Ebpf.sizeOf i.op == 4 || Ebpf.sizeOf i.op == 8))

/-- rule (7), the part about constant shift counts and constant divisors: what `Binary.calculate` checks itself
(AssembleError) since its repair.  Implied by `wfInsn` (`Ebv.C05.wfInsn_immOk`); `Ebv.C05.emitProg_imm_ok` proves it for
everything the generator model emits -/
def immOk (i : Insn) : Bool :=
  !(isAlu i && !useReg i) ||
    (if code i == 6 || code i == 7 || code i == 12 then decide (0 ≤ i.imm) && decide (i.imm < aluWidth i)
     else if code i == 3 || code i == 9 then i.imm != 0 else true)

def wfSecond (j : Insn) : Bool := j.op == 0 && j.dst == 0 && j.src == 0 && j.off == 0

/-- `true` at the second slot of every LD_IMM64 -/
def marks : List Insn → List Bool
  | [] => []
  | [_] => [false]
  | i :: j :: rest => if i.op = 0x18 then false :: true :: marks rest else false :: marks (j :: rest)

def isSecond (prog : List Insn) (pc : Nat) : Bool := (marks prog).getD pc false

/-- the structural check at one first-slot instruction -/
def structAt (prog : List Insn) (pc : Nat) (i : Insn) : Bool :=
  wfInsn i &&
  (!isJump i || (decide (0 ≤ i.off) && decide (target pc i < prog.length) && !isSecond prog (target pc i))) &&
  (!isLdImm64 i || (match prog[pc + 1]? with | some j => wfSecond j | none => false))

def lastOk (prog : List Insn) : Bool :=
  match prog.getLast? with
  | some l => (isExit l || isJa l) && !isSecond prog (prog.length - 1)
  | none => false

def structOk (prog : List Insn) : Bool :=
  lastOk prog && (List.range prog.length).all fun pc =>
    isSecond prog pc || (match prog[pc]? with | some i => structAt prog pc i | none => false)

/-! ## the transfer function (rules 1-4, 6, 7) -/

abbrev R := Except String

def immU32 (imm : Int) : Nat := (imm % 4294967296).toNat
/-- the immediate as an unsigned 64-bit number (sign-extended 32 bits) -/
def immU64 (imm : Int) : Nat :=
  let u := immU32 imm
  if u < 2147483648 then u else u + (18446744073709551616 - 4294967296)

/-- the immediate as the signed number the 64-bit ALU adds (32 bits, sign-extended) -/
def simmZ (imm : Int) : Int := (imm32 imm).toInt

def capW (w : Nat) (b : Option Nat) : Nat :=
  match b with
  | some v => min v (2 ^ w - 1)
  | none => 2 ^ w - 1

def fitW (w v : Nat) : Option Nat := if v < 2 ^ w then some v else none

/-- upper bound of the result of a `w`-bit ALU operation on operands with the given bounds; `sh` = exact immediate -/
def aluBound (w c : Nat) (a b : Option Nat) (sh : Option Nat) : Option Nat :=
  match c, a, b with
  | 0, some x, some y => fitW w (x + y)
  | 2, some x, some y => fitW w (x * y)
  | 3, x, _ => x
  | 9, x, _ => x
  | 4, some x, some y => fitW w (x + y)
  | 10, some x, some y => fitW w (x + y)
  | 5, some x, some y => some (min x y)
  | 5, some x, none => some x
  | 5, none, some y => some y
  | 6, some x, _ => (match sh with | some k => fitW w (x * 2 ^ k) | none => none)
  | 7, some x, _ => (match sh with | some k => some (x / 2 ^ k) | none => some x)
  | 7, none, _ => (match sh with | some k => some (2 ^ (w - k) - 1) | none => none)
  | 12, some x, _ => if x < 2 ^ (w - 1) then (match sh with | some k => some (x / 2 ^ k) | none => some x) else none
  | 11, _, y => y
  | _, _, _ => none

def scalarBound : Kind → Option Nat
  | .scalar b => b
  | _ => none

def aluScalar (i : Insn) (a b : Option Nat) : Kind :=
  let w := aluWidth i
  let cap : Option Nat → Option Nat := fun x => if w = 64 then x else some (capW 32 x)
  let sh : Option Nat := if useReg i then none else some i.imm.toNat
  .scalar (cap (aluBound w (code i) (cap a) (cap b) sh))

def ptrAddImm (d : Kind) (k : Int) : R Kind :=
  let fits (o : Int) : Bool := decide (-536870912 < o) && decide (o < 536870912)       -- BPF_MAX_VAR_OFF
  match d with
  | .fp o => if fits (o + k) then .ok (.fp (o + k)) else .error "ptr-alu:value makes fp pointer be out of bounds"
  | .mapval f o m => if fits (o + k) then .ok (.mapval f (o + k) m) else .error "ptr-alu:value makes map_value pointer be out of bounds"
  | .pkt o r => if fits (o + k) then .ok (.pkt (o + k) r) else .error "ptr-alu:value makes pkt pointer be out of bounds"
  | .mapvalOrNull _ _ => .error "null:pointer arithmetic on map_value_or_null prohibited, null-check it first"
  | .pktEnd => .error "ptr-alu:pointer arithmetic on pkt_end prohibited"
  | .mapfd _ => .error "ptr-alu:pointer arithmetic on map_ptr prohibited"
  | .ctx => .error "ctx:arithmetic on the context pointer (not modelled)"
  | _ => .error "internal:ptrAddImm"

/-- pointer (dst) += scalar register: only the bounded-offset pattern on map values -/
def ptrAddVar (d : Kind) (b : Option Nat) : R Kind :=
  match d, b with
  | .mapval f o m, some u => if u < 536870912 then .ok (.mapval f o (m + u)) else .error "mapval:offset bound too large"
  | .mapval _ _ _, none => .error "mapval:math between map_value pointer and register with unbounded min value is not allowed"
  | .mapvalOrNull _ _, _ => .error "null:pointer arithmetic on map_value_or_null prohibited, null-check it first"
  | .pktEnd, _ => .error "ptr-alu:pointer arithmetic on pkt_end prohibited"
  | .mapfd _, _ => .error "ptr-alu:pointer arithmetic on map_ptr prohibited"
  | _, _ => .error "ptr-var:variable offset on this pointer kind (not modelled)"

def aluStep (i : Insn) (a : AbsState) : R AbsState :=
  let d := a.reg i.dst
  let s : Kind := if useReg i then a.reg i.src else .scalar (some (if cls i == 7 then immU64 i.imm else immU32 i.imm))
  let c := code i
  if c == 11 then                                           -- MOV
    if cls i == 7 then .ok (a.set i.dst s)
    else .ok (a.set i.dst (aluScalar i none (scalarBound s)))
  else if c == 8 || c == 13 then                            -- NEG, END
    if d.isPtr then .error "ptr-alu:pointer arithmetic prohibited"
    else .ok (a.set i.dst (.scalar (if c == 13 && decide (i.imm < 64) then some (2 ^ i.imm.toNat - 1) else none)))
  else if !d.isPtr && !s.isPtr then .ok (a.set i.dst (aluScalar i (scalarBound d) (scalarBound s)))
  else if cls i != 7 then .error "ptr-alu:32-bit pointer arithmetic prohibited"
  else if c == 0 then                                       -- ADD
    if d.isPtr && s.isPtr then .error "ptr-alu:pointer += pointer prohibited"
    else if d.isPtr then do
      let k ← if useReg i then ptrAddVar d (scalarBound s) else ptrAddImm d (simmZ i.imm)
      pure (a.set i.dst k)
    else do
      let k ← ptrAddVar s (scalarBound d)
      pure (a.set i.dst k)
  else if c == 1 then                                       -- SUB
    if d.isPtr && s.isPtr then .ok (a.set i.dst (.scalar none))
    else if d.isPtr && !useReg i then do
      let k ← ptrAddImm d (-(simmZ i.imm))
      pure (a.set i.dst k)
    else .error "ptr-var:pointer -= register (not modelled)"
  else .error "ptr-alu:pointer arithmetic with this operator prohibited"

/-- mask of the frame bytes [lo, lo+size), lo in [-512, 0) -/
def stackMask (lo : Int) (size : Nat) : Nat := (2 ^ size - 1) <<< (lo + 512).toNat

def inFrame (lo : Int) (size : Nat) : Bool := decide (-512 ≤ lo) && decide (lo + size ≤ 0)

/-- `size` readable bytes behind a pointer passed to a helper -/
def checkMemArg (cfg : Config) (geo : MapGeometry) (a : AbsState) (what : String) (k : Kind) (size : Nat) : R Unit :=
  match k with
  | .fp o =>
    if !inFrame o size then .error s!"stack:invalid indirect access to stack {what}"
    else if cfg.allowUninitStack || (a.stack &&& stackMask o size == stackMask o size) then .ok ()
    else .error s!"stack:invalid indirect read from stack {what}"
  | .mapval f o m =>
    match geo.find f with
    | some mi => if decide (0 ≤ o) && decide (o + m + size ≤ mi.valueSize) then .ok () else .error s!"mapval:invalid access to map value {what}"
    | none => .error "helper:unknown map"
  | .pkt o r => if decide (0 ≤ o) && decide (o + size ≤ r) then .ok () else .error s!"pkt:invalid access to packet {what}"
  | k => .error s!"helper:{what} type={k.name} expected=fp, pkt, map_value"

def mapArg (geo : MapGeometry) (k : Kind) (wantProgArray : Bool) : R MapInfo :=
  match k with
  | .mapfd f =>
    match geo.find f with
    | some mi =>
      if (mi.kind == .progArray) == wantProgArray then .ok mi
      else .error "helper:cannot pass this map type into the helper"
    | none => .error "helper:unknown map"
  | k => .error s!"helper:R1 type={k.name} expected=map_ptr"

def afterCall (a : AbsState) (ret : Kind) : AbsState :=
  (((((a.set 0 ret).set 1 .uninit).set 2 .uninit).set 3 .uninit).set 4 .uninit).set 5 .uninit

def callHelper (cfg : Config) (geo : MapGeometry) (pc : Nat) (a : AbsState) (id : Int) : R AbsState :=
  if id == 1 then do
    let mi ← mapArg geo (a.reg 1) false
    checkMemArg cfg geo a "R2" (a.reg 2) mi.keySize
    pure (afterCall a (.mapvalOrNull (match a.reg 1 with | .mapfd f => f | _ => 0) pc))
  else if id == 2 then do
    let mi ← mapArg geo (a.reg 1) false
    checkMemArg cfg geo a "R2" (a.reg 2) mi.keySize
    checkMemArg cfg geo a "R3" (a.reg 3) mi.valueSize
    pure (afterCall a (.scalar none))
  else if id == 3 then do
    let mi ← mapArg geo (a.reg 1) false
    checkMemArg cfg geo a "R2" (a.reg 2) mi.keySize
    pure (afterCall a (.scalar none))
  else if id == 5 || id == 7 then pure (afterCall a (.scalar none))
  else if id == 12 then do
    if a.reg 1 != .ctx then throw s!"helper:R1 type={(a.reg 1).name} expected=ctx"
    let _ ← mapArg geo (a.reg 2) true
    pure (afterCall a .uninit)
  else .error s!"helper:unknown func {id}"

def loadedScalar (size : Nat) : Kind := .scalar (if size < 8 then some (2 ^ (8 * size) - 1) else none)

def overlaps (lo : Int) (size : Nat) (e : Int × Kind) : Bool := decide (e.1 < lo + size) && decide (lo < e.1 + 8)

/-- LDX / ST / STX / XADD through base kind `b` at `b + off`, `size` bytes: the state after it and the loaded kind;
`src` = the kind of the stored register (STX) -/
def memStep (cfg : Config) (geo : MapGeometry) (a : AbsState) (rn : Nat) (b : Kind) (off : Int) (size : Nat) (rd wr : Bool)
    (src : Option Kind := none) : R (AbsState × Kind) :=
  match b with
  | .fp o =>
    let lo := o + off
    let spill : Bool := match src with | some k => k.isPtr && !rd | none => false
    if !inFrame lo size then .error s!"stack:invalid stack off={lo} size={size}"
    else if lo % (size : Int) != 0 then .error s!"stack:misaligned stack access off {lo} size {size}"
    else if rd && !(cfg.allowUninitStack || (a.stack &&& stackMask lo size == stackMask lo size)) then
      .error s!"stack:invalid read from stack off {lo} size {size}"
    else if spill && size != 8 then .error "stack:invalid size of register spill"
    else
      let loaded : Kind := match a.spills.find? (fun e => e.1 == lo && size == 8) with
        | some e => e.2
        | none => loadedScalar size
      let sp := if wr then a.spills.filter (fun e => !overlaps lo size e) else a.spills
      let sp := match src with | some k => if spill then (lo, k) :: sp else sp | none => sp
      .ok (if wr then { a with stack := a.stack ||| stackMask lo size, spills := sp } else a, loaded)
  | .mapval f o m =>
    match geo.find f with
    | some mi =>
      if decide (0 ≤ o + off) && decide (o + off + m + size ≤ mi.valueSize) then .ok (a, loadedScalar size)
      else .error s!"mapval:invalid access to map value, value_size={mi.valueSize} off={o + off} size={size}"
    | none => .error "mapval:unknown map"
  | .pkt o r =>
    if rd && wr then .error s!"pkt:BPF_ATOMIC stores into R{rn} pkt is not allowed"
    else if decide (0 ≤ o + off) && decide (o + off + size ≤ r) then .ok (a, loadedScalar size)
    else .error s!"pkt:invalid access to packet, off={o + off} size={size}, R{rn} range={r}"
  | .ctx =>
    if wr then .error "ctx:invalid bpf_context access (write)"
    else if size != 4 then .error "ctx:invalid bpf_context access (size)"
    else if off == 0 then .ok (a, .pkt 0 0)
    else if off == 4 then .ok (a, .pktEnd)
    else if off == 12 || off == 16 then .ok (a, .scalar (some 4294967295))      -- egress_ifindex (20) only for devmap programs
    else .error s!"ctx:invalid bpf_context access off={off} (data_meta not modelled)"
  | .mapvalOrNull _ _ => .error s!"null:R{rn} invalid mem access 'map_value_or_null'"
  | .uninit => .error s!"uninit:R{rn} !read_ok"
  | k => .error s!"mem:R{rn} invalid mem access '{k.name}'"

/-! ## branches -/

def mapRegs (a : AbsState) (f : Kind → Kind) : AbsState := { a with regs := a.regs.map f }

def refineNull (a : AbsState) (id : Nat) (nonNull : Bool) : AbsState :=
  mapRegs a fun k =>
    match k with
    | .mapvalOrNull f id' => if id' == id then (if nonNull then .mapval f 0 0 else .scalar (some 0)) else k
    | k => k

/-- every packet pointer learns that `n` bytes from the start of the packet are readable; `o` = offset of the compared
pointer, `opn` = the comparison was strict (as `find_good_pkt_pointers`) -/
def refinePkt (a : AbsState) (o : Int) (opn : Bool) : AbsState :=
  if o < 0 || (o == 0 && opn) || o > 65535 then a else      -- MAX_PACKET_OFF
  let n := o.toNat + (if opn then 1 else 0)
  mapRegs a fun k =>
    match k with
    | .pkt o' r => .pkt o' (max r n)
    | k => k

def refineBound (a : AbsState) (r : Nat) (n : Nat) : AbsState :=
  match a.reg r with
  | .scalar b => a.set r (.scalar (some (min (capW 64 b) n)))
  | _ => a

/-- states on the fall-through and on the taken edge of a conditional jump -/
def branch (i : Insn) (a : AbsState) : AbsState × AbsState :=
  if cls i != 5 then (a, a) else
  let c := code i
  let d := a.reg i.dst
  if useReg i then
    match d, a.reg i.src with
    | .pkt o _, .pktEnd =>
      if c == 2 then (refinePkt a o false, a) else if c == 3 then (refinePkt a o true, a)
      else if c == 10 then (a, refinePkt a o true) else if c == 11 then (a, refinePkt a o false) else (a, a)
    | .pktEnd, .pkt o _ =>
      if c == 2 then (a, refinePkt a o true) else if c == 3 then (a, refinePkt a o false)
      else if c == 10 then (refinePkt a o false, a) else if c == 11 then (refinePkt a o true, a) else (a, a)
    | .scalar _, .scalar (some k) =>
      if c == 2 then (refineBound a i.dst k, a) else if c == 3 && k > 0 then (refineBound a i.dst (k - 1), a)
      else if c == 10 && k > 0 then (a, refineBound a i.dst (k - 1)) else if c == 11 then (a, refineBound a i.dst k) else (a, a)
    | _, _ => (a, a)
  else
    let k := immU64 i.imm
    match d with
    | .mapvalOrNull _ id =>
      if i.imm == 0 && c == 1 then (refineNull a id true, refineNull a id false)
      else if i.imm == 0 && c == 5 then (refineNull a id false, refineNull a id true)
      else (a, a)
    | .scalar _ =>
      if c == 2 then (refineBound a i.dst k, a) else if c == 3 && k > 0 then (refineBound a i.dst (k - 1), a)
      else if c == 10 && k > 0 then (a, refineBound a i.dst (k - 1)) else if c == 11 then (a, refineBound a i.dst k)
      else if c == 1 then (a, refineBound a i.dst k) else if c == 5 then (refineBound a i.dst k, a) else (a, a)
    | _ => (a, a)

def ldImm64 (geo : MapGeometry) (i : Insn) (j : Option Insn) (a : AbsState) : R AbsState :=
  if i.src == 1 then
    match geo.find i.imm with
    | some _ => .ok (a.set i.dst (.mapfd i.imm))
    | none => .error s!"helper:fd {i.imm} is not pointing to valid bpf_map"
  else
    let hi := match j with | some j => immU32 j.imm | none => 0
    .ok (a.set i.dst (.scalar (some (immU32 i.imm + hi * 4294967296))))

def checkReads (i : Insn) (a : AbsState) : R Unit :=
  match (reads i).find? (fun r => !(decide (r < 11) && (a.reg r).isInit)) with
  | some r => .error s!"uninit:R{r} !read_ok"
  | none => .ok ()

/-- abstract successors of instruction `i` at `pc` (`j` = the next slot, for LD_IMM64) -/
def transfer (cfg : Config) (geo : MapGeometry) (pc : Nat) (i : Insn) (j : Option Insn) (a : AbsState) :
    R (List (Nat × AbsState)) := do
  checkReads i a
  if isAlu i then
    let a' ← aluStep i a
    pure [(pc + 1, a')]
  else if isJmpCls i then
    if isCall i then do
      let a' ← callHelper cfg geo pc a i.imm
      pure [(pc + 1, a')]
    else if isExit i then pure []
    else if code i == 0 then pure [(target pc i, a)]
    else
      let (f, t) := branch i a
      pure [(pc + 1, f), (target pc i, t)]
  else if cls i == 0 then do
    let a' ← ldImm64 geo i j a
    pure [(pc + 2, a')]
  else
    let size := Ebpf.sizeOf i.op
    if isLdx i then do
      let (a', k) ← memStep cfg geo a i.src (a.reg i.src) i.off size true false
      pure [(pc + 1, a'.set i.dst k)]
    else do
      let (a', _) ← memStep cfg geo a i.dst (a.reg i.dst) i.off size (isAtomic i) true
        (if isStx i then some (a.reg i.src) else none)
      pure [(pc + 1, a')]

/-! ## the forward pass and its validation -/

abbrev Table := List (Option AbsState)

def joinAt (t : Table) (pc : Nat) (a : AbsState) : Table :=
  match t[pc]? with
  | some (some b) => t.set pc (some (b.join a))
  | some none => t.set pc (some a)
  | none => t

def flowStep (cfg : Config) (geo : MapGeometry) (prog : List Insn) (t : Table) (pc : Nat) : R Table :=
  if isSecond prog pc then .ok t else
  match prog[pc]?, t[pc]? with
  | some i, some (some a) =>
    match transfer cfg geo pc i prog[pc + 1]? a with
    | .ok outs => .ok (outs.foldl (fun t (o : Nat × AbsState) => joinAt t o.1 o.2) t)
    | .error e => .error s!"{e}@{pc}"
  | _, _ => .error s!"struct:unreachable insn@{pc}"

def flowFrom (cfg : Config) (geo : MapGeometry) (prog : List Insn) : List Nat → Table → R Table
  | [], t => .ok t
  | pc :: rest, t =>
    match flowStep cfg geo prog t pc with
    | .ok t' => flowFrom cfg geo prog rest t'
    | .error e => .error e

def flow (cfg : Config) (geo : MapGeometry) (prog : List Insn) : R Table :=
  flowFrom cfg geo prog (List.range prog.length) ((List.replicate prog.length none).set 0 (some initState))

/-- rule 1 on one edge: a register has a value after `i` only if `i` wrote it, or it had one and `i` did not kill it -/
def defsOk (i : Insn) (a a' : AbsState) : Bool :=
  a'.regs.length == 11 && (List.range 11).all fun r =>
    !(a'.reg r).isInit || (defs i).contains r || ((a.reg r).isInit && !(kills i).contains r)

/-- rule 2 on one edge: a register is a frame pointer `fp o'` after `i` only if it was one and `i` left it alone (a helper call
keeps r6-r10 only), or `i` copied one (`MOV64 dst, src`), or `i` added / subtracted a constant (`ADD64/SUB64 dst, imm`) -/
def fpEdgeOk (i : Insn) (a a' : AbsState) : Bool :=
  (List.range 11).all fun r =>
    match a'.reg r with
    | .fp o' =>
      (!(defs i).contains r && !(kills i).contains r && (!isCall i || decide (6 ≤ r)) && a.reg r == .fp o') ||
      (i.op == 0xbf && r == i.dst && a.reg i.src == .fp o') ||
      (i.op == 0x07 && r == i.dst && (match a.reg r with | .fp o => o' == o + simmZ i.imm | _ => false)) ||
      (i.op == 0x17 && r == i.dst && (match a.reg r with | .fp o => o' == o - simmZ i.imm | _ => false))
    | _ => true

/-- rule 2 at one instruction: a load or store through a frame pointer stays inside the 512-byte frame -/
def stackAccessOk (i : Insn) (a : AbsState) : Bool :=
  if isLdx i then (match a.reg i.src with | .fp o => inFrame (o + i.off) (Ebpf.sizeOf i.op) | _ => true)
  else if isSt i || isStx i then (match a.reg i.dst with | .fp o => inFrame (o + i.off) (Ebpf.sizeOf i.op) | _ => true)
  else true

def readsOk (i : Insn) (a : AbsState) : Bool := (reads i).all fun r => decide (r < 11) && (a.reg r).isInit

/-- the table is inductive at `pc`: reads initialised, the transfer succeeds, every concrete successor is covered by an
abstract successor, and every abstract successor is above the table entry of its target -/
def checkAt (cfg : Config) (geo : MapGeometry) (prog : List Insn) (t : Table) (pc : Nat) : Bool :=
  match prog[pc]?, t[pc]? with
  | some i, some (some a) =>
    readsOk i a && stackAccessOk i a &&
    match transfer cfg geo pc i prog[pc + 1]? a with
    | .ok outs =>
      (succPcs pc i).all (fun q => outs.any (·.1 == q)) &&
      outs.all fun o => defsOk i a o.2 && fpEdgeOk i a o.2 && (match t[o.1]? with | some (some b) => b.leq o.2 | _ => false)
    | .error _ => false
  | some _, some none => isSecond prog pc
  | _, _ => false

def checkTable (cfg : Config) (geo : MapGeometry) (prog : List Insn) (t : Table) : Bool :=
  t.length == prog.length &&
  (match t[0]? with | some (some a0) => a0.leq initState | _ => false) &&
  (List.range prog.length).all (checkAt cfg geo prog t)

/-- CFG reachability as `check_cfg` sees it (both edges of every conditional jump): the first unreachable first-slot pc -/
def reachFrom (prog : List Insn) : List Nat → List Bool → List Bool
  | [], r => r
  | pc :: rest, r =>
    match prog[pc]? with
    | some i => reachFrom prog rest (if r.getD pc false then (succPcs pc i).foldl (fun r q => r.set q true) r else r)
    | none => r

def firstUnreachable (prog : List Insn) : Option Nat :=
  let r := reachFrom prog (List.range prog.length) ((List.replicate prog.length false).set 0 true)
  (List.range prog.length).find? fun pc => !(isSecond prog pc) && !(r.getD pc false)

/-- why `structAt` fails (for the driver): immediates of shifts/divisions/END are rule 7, everything else rule 5 -/
def structReason (prog : List Insn) (pc : Nat) (i : Insn) : String :=
  if isAlu i && !useReg i && (code i == 6 || code i == 7 || code i == 12) && !(decide (0 ≤ i.imm) && decide (i.imm < aluWidth i)) then
    s!"alu:invalid shift {i.imm}"
  else if isAlu i && !useReg i && (code i == 3 || code i == 9) && i.imm == 0 then "alu:div by zero"
  else if isAlu i && code i == 13 && !(i.imm == 16 || i.imm == 32 || i.imm == 64) then s!"alu:invalid END width {i.imm}"
  else if !wfInsn i then "struct:unknown opcode, reserved field or register out of range"
  else if isLdImm64 i then "struct:invalid BPF_LD_IMM insn"
  else if i.off < 0 then "struct:back-edge"
  else if target pc i ≥ prog.length then "struct:jump out of range"
  else "struct:jump into the middle of ldimm64"

/-- `ok ()` or the first reason for rejection: `<rule>:<detail>@<pc>` -/
def check (cfg : Config) (prog : List Insn) (geo : MapGeometry) : R Unit :=
  if !structOk prog then
    .error (match (List.range prog.length).find? (fun pc => !(isSecond prog pc ||
        (match prog[pc]? with | some i => structAt prog pc i | none => false))) with
      | some pc => s!"{structReason prog pc (prog.getD pc ⟨0, 0, 0, 0, 0⟩)}@{pc}"
      | none => "struct:last insn is not an exit or jmp")
  else
    match firstUnreachable prog with
    | some pc => .error s!"struct:unreachable insn@{pc}"
    | none =>
      match flow cfg geo prog with
      | .error e => .error e
      | .ok t => if checkTable cfg geo prog t then .ok () else .error "internal:table not inductive"

def acceptsWith (cfg : Config) (prog : List Insn) (geo : MapGeometry) : Bool :=
  structOk prog && (match flow cfg geo prog with | .ok t => checkTable cfg geo prog t | .error _ => false)

/-- the unprivileged reading of rule 2 (every stack byte read was written) -/
def accepts (prog : List Insn) (geo : MapGeometry) : Bool := acceptsWith {} prog geo

end Ebv.MiniV
