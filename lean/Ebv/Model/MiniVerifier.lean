import Ebv.Model.Ebpf
/-! # `MiniV` — a small model of the Linux eBPF verifier rules the ebpfcat generator can run into (C05)

An abstract interpreter over register kinds and a stack-initialisation bitmap; one forward pass (all jumps of an
accepted program are forward, so states are joined at jump targets), followed by a *validation* pass
(`checkAt`) that re-checks that the computed table is inductive.  The soundness theorems of `Ebv.C05` only depend
on the validation pass.  The real verifier is NOT this model: bounds tracking, path sensitivity, pruning of dead
branches, helper prototypes per program type, alignment policy, complexity limits are not modelled (see DESIGN §4 C05).
Program type: XDP.  Encoding numbers are the kernel's instruction-set ABI (as in `Ebv.Ebpf`). -/
namespace Ebv.MiniV
open Ebv.Ebpf

/-! ## map geometry, kinds -/

inductive MapKind where
  | array | hash | progArray
deriving DecidableEq, Repr, Inhabited

structure MapInfo where
  kind : MapKind
  keySize : Nat
  valueSize : Nat
deriving DecidableEq, Repr, Inhabited

/-- map fd (the immediate of the pseudo LD_IMM64) → geometry -/
abbrev MapGeometry := List (Int × MapInfo)

def MapGeometry.find (g : MapGeometry) (fd : Int) : Option MapInfo := (g.find? (·.1 == fd)).map (·.2)

structure Config where
  /-- privileged loads (CAP_PERFMON) may read stack bytes never written -/
  allowUninitStack : Bool := false
deriving Repr, Inhabited

inductive Kind where
  | uninit
  | scalar (umax : Option Nat)                 -- `some n`: the unsigned 64-bit value is ≤ n
  | ctx
  | fp (off : Int)
  | mapfd (fd : Int)
  | mapvalOrNull (fd : Int) (id : Nat)
  | mapval (fd : Int) (off : Int) (offmax : Nat)   -- fixed offset + a variable part in [0, offmax]
  | pkt (off : Int) (range : Nat)
  | pktEnd
deriving DecidableEq, Repr, Inhabited

def Kind.isInit : Kind → Bool
  | .uninit => false
  | _ => true

def Kind.isPtr : Kind → Bool
  | .uninit => false
  | .scalar _ => false
  | _ => true

def Kind.name : Kind → String
  | .uninit => "uninit" | .scalar _ => "scalar" | .ctx => "ctx" | .fp _ => "fp" | .mapfd _ => "map_ptr"
  | .mapvalOrNull _ _ => "map_value_or_null" | .mapval _ _ _ => "map_value" | .pkt _ _ => "pkt" | .pktEnd => "pkt_end"

def boundLeq : Option Nat → Option Nat → Bool      -- first is weaker
  | none, _ => true
  | some _, none => false
  | some y, some x => x ≤ y

def boundJoin : Option Nat → Option Nat → Option Nat
  | some x, some y => some (max x y)
  | _, _ => none

/-- `leq b a`: `b` is at most as informative as `a` (everything allowed under `b` is allowed under `a`) -/
def Kind.leq : Kind → Kind → Bool
  | .uninit, _ => true
  | .scalar y, .scalar x => boundLeq y x
  | .mapval f o m, .mapval f' o' m' => f == f' && o == o' && m' ≤ m
  | .pkt o r, .pkt o' r' => o == o' && r ≤ r'
  | b, a => b == a

def Kind.join : Kind → Kind → Kind
  | .scalar x, .scalar y => .scalar (boundJoin x y)
  | .mapval f o m, .mapval f' o' m' => if f == f' && o == o' then .mapval f o (max m m') else .uninit
  | .pkt o r, .pkt o' r' => if o == o' then .pkt o (min r r') else .uninit
  | a, b => if a == b then a else .uninit

/-- registers r0..r10 and the initialised bytes of the 512-byte frame (bit k = byte fp-512+k) -/
structure AbsState where
  regs : List Kind
  stack : Nat
deriving DecidableEq, Repr, Inhabited

def AbsState.reg (a : AbsState) (r : Nat) : Kind := a.regs.getD r .uninit
def AbsState.set (a : AbsState) (r : Nat) (k : Kind) : AbsState := { a with regs := a.regs.set r k }

def initState : AbsState :=
  { regs := [.uninit, .ctx, .uninit, .uninit, .uninit, .uninit, .uninit, .uninit, .uninit, .uninit, .fp 0], stack := 0 }

def AbsState.leq (b a : AbsState) : Bool :=
  b.regs.length == 11 && (List.range 11).all (fun r => (b.reg r).leq (a.reg r)) && (b.stack &&& a.stack == b.stack)

def AbsState.join (a b : AbsState) : AbsState :=
  { regs := (List.range 11).map (fun r => (a.reg r).join (b.reg r)), stack := a.stack &&& b.stack }

/-! ## syntax: classes, registers read and written, successors -/

def cls (i : Insn) : Nat := i.op % 8
def code (i : Insn) : Nat := i.op / 16
def useReg (i : Insn) : Bool := (i.op / 8) % 2 == 1
def isAlu (i : Insn) : Bool := cls i == 7 || cls i == 4
def isJmpCls (i : Insn) : Bool := cls i == 5 || cls i == 6
def isCall (i : Insn) : Bool := i.op == 0x85
def isExit (i : Insn) : Bool := i.op == 0x95
def isJa (i : Insn) : Bool := i.op == 0x05
def isLdImm64 (i : Insn) : Bool := i.op == 0x18
/-- a jump with a target: JA or a conditional jump -/
def isJump (i : Insn) : Bool := isJmpCls i && !isCall i && !isExit i
def memMode (i : Insn) : Nat := i.op / 32
def isLdx (i : Insn) : Bool := cls i == 1
def isSt (i : Insn) : Bool := cls i == 2
def isStx (i : Insn) : Bool := cls i == 3
def isAtomic (i : Insn) : Bool := cls i == 3 && memMode i == 6

/-- helper prototypes of the helpers the generator emits: number of argument registers read, and whether r0 is set -/
def helperArgs (id : Int) : Option (Nat × Bool) :=
  if id == 1 then some (2, true)          -- map_lookup_elem(map, key)
  else if id == 2 then some (4, true)     -- map_update_elem(map, key, value, flags)
  else if id == 3 then some (2, true)     -- map_delete_elem(map, key)
  else if id == 5 then some (0, true)     -- ktime_get_ns()
  else if id == 7 then some (0, true)     -- get_prandom_u32()
  else if id == 12 then some (3, false)   -- tail_call(ctx, prog_array, index): returns nothing
  else none

/-- the registers an instruction reads -/
def reads (i : Insn) : List Nat :=
  if isAlu i then
    if code i == 11 then (if useReg i then [i.src] else [])           -- MOV
    else if code i == 8 || code i == 13 then [i.dst]                  -- NEG, END
    else if useReg i then [i.dst, i.src] else [i.dst]
  else if isJmpCls i then
    if isCall i then (match helperArgs i.imm with | some (n, _) => (List.range n).map (· + 1) | none => [])
    else if isExit i then [0]
    else if code i == 0 then []
    else if useReg i then [i.dst, i.src] else [i.dst]
  else if cls i == 0 then []
  else if isLdx i then [i.src]
  else if isSt i then [i.dst]
  else [i.dst, i.src]

/-- the registers an instruction writes -/
def defs (i : Insn) : List Nat :=
  if isAlu i then [i.dst]
  else if isCall i then (match helperArgs i.imm with | some (_, false) => [] | _ => [0])
  else if isJmpCls i then []
  else if cls i == 0 || isLdx i then [i.dst]
  else []

/-- the registers an instruction leaves without a value -/
def kills (i : Insn) : List Nat := if isCall i then [1, 2, 3, 4, 5] else []

def target (pc : Nat) (i : Insn) : Nat := ((pc : Int) + 1 + i.off).toNat

/-- the program counters that can follow `pc` (mirrors `Ebv.Ebpf.step`) -/
def succPcs (pc : Nat) (i : Insn) : List Nat :=
  if isJmpCls i then
    if cls i == 5 && code i == 8 then [pc + 1]
    else if cls i == 5 && code i == 9 then []
    else if code i == 0 then [target pc i]
    else [pc + 1, target pc i]
  else if cls i == 0 then [pc + 2]
  else [pc + 1]

/-! ## rule 5 / rule 7: well-formed instructions and control flow -/

def aluWidth (i : Insn) : Nat := if cls i == 7 then 64 else 32

/-- opcode in the modelled subset, reserved fields zero, registers in range, immediates legal -/
def wfInsn (i : Insn) : Bool :=
  i.dst ≤ 10 && i.src ≤ 10 &&
  if isAlu i then
    i.dst ≤ 9 && i.off == 0 &&
    if code i == 13 then i.src == 0 && (i.imm == 16 || i.imm == 32 || i.imm == 64) && (cls i == 4)
    else if code i == 8 then i.src == 0 && i.imm == 0 && !useReg i
    else code i ≤ 12 &&
      (if useReg i then i.imm == 0
       else i.src == 0 &&
         (if code i == 6 || code i == 7 || code i == 12 then decide (0 ≤ i.imm) && decide (i.imm < aluWidth i)
          else if code i == 3 || code i == 9 then i.imm != 0 else true))
  else if isJmpCls i then
    if isCall i then i.dst == 0 && i.src == 0 && i.off == 0
    else if isExit i then i.dst == 0 && i.src == 0 && i.off == 0 && i.imm == 0
    else if code i == 0 then isJa i && i.dst == 0 && i.src == 0 && i.imm == 0
    else (code i ≤ 7 || (10 ≤ code i && code i ≤ 13)) && code i != 0 && (if useReg i then i.imm == 0 else i.src == 0)
  else if cls i == 0 then isLdImm64 i && i.dst ≤ 9 && i.off == 0 && (i.src == 0 || i.src == 1)
  else if isLdx i then memMode i == 3 && i.dst ≤ 9 && i.imm == 0
  else if isSt i then memMode i == 3 && i.src == 0
  else (memMode i == 3 && i.imm == 0) || (memMode i == 6 && i.imm == 0 && (sizeOf i.op == 4 || sizeOf i.op == 8))

def wfSecond (j : Insn) : Bool := j.op == 0 && j.dst == 0 && j.src == 0 && j.off == 0

/-- `true` at the second slot of every LD_IMM64 -/
def marks : List Insn → List Bool
  | [] => []
  | [_] => [false]
  | i :: j :: rest => if i.op = 0x18 then false :: true :: marks rest else false :: marks (j :: rest)

def isSecond (prog : List Insn) (pc : Nat) : Bool := (marks prog).getD pc false

/-- the structural check at one first-slot instruction -/
def structAt (prog : List Insn) (pc : Nat) (i : Insn) : Bool :=
  wfInsn i &&
  (!isJump i || (decide (0 ≤ i.off) && decide (target pc i < prog.length) && !isSecond prog (target pc i))) &&
  (!isLdImm64 i || (match prog[pc + 1]? with | some j => wfSecond j | none => false))

def lastOk (prog : List Insn) : Bool :=
  match prog.getLast? with
  | some l => (isExit l || isJa l) && !isSecond prog (prog.length - 1)
  | none => false

def structOk (prog : List Insn) : Bool :=
  lastOk prog && (List.range prog.length).all fun pc =>
    isSecond prog pc || (match prog[pc]? with | some i => structAt prog pc i | none => false)

end Ebv.MiniV
