/-! Model of what the generated fast `Motor.program` (ebpfcat/devices.py) computes for
the bundled EL7041 layout (velocity `h`, stepcounter `i`, switch bits; DeviceVars `I`),
transcribed from the emitted code's widths: all limiting in the 64-bit temporary, then the
16-bit store, then the switch tests on the stored velocity.  `spec` is the
control law the property states. -/
namespace Ebv.Motor

structure Inputs where
  gain : Nat        -- proportional, u32
  target : Nat      -- u32
  position : Int    -- stepcounter, s32
  vprev : Int       -- velocity output as last commanded, s16
  acc : Nat         -- max_acceleration, u32
  vmax : Nat        -- max_velocity, u32
  low : Bool        -- low limit switch active
  high : Bool       -- high limit switch active
deriving Repr, DecidableEq

def wrapS (bits : Nat) (x : Int) : Int :=
  let m := x % (2 ^ bits : Int)
  if m < 2 ^ (bits - 1) then m else m - 2 ^ bits

/-- the velocity the program leaves in the frame -/
def program (i : Inputs) : Int :=
  let d := wrapS 64 ((i.gain : Int) * ((i.target : Int) - i.position))
  let r := if d > i.vprev + i.acc then i.vprev + i.acc else d
  let r2 := if wrapS 64 (r + i.acc) < i.vprev then i.vprev - i.acc else r
  let r3 := if r2 > (i.vmax : Int) then (i.vmax : Int) else r2                       -- 64-bit compares in the temporary
  let r4 := if wrapS 64 (r3 + i.vmax) < 0 then wrapS 64 (0 - (i.vmax : Int)) else r3
  let v1 := wrapS 16 r4                                   -- 16-bit store, read back sign-extended
  let v4 := if i.low && decide (v1 < 0) then 0 else v1
  if i.high && decide (v4 > 0) then 0 else v4

/-- the accelerated-limited value before the 16-bit store -/
def limited (i : Inputs) : Int :=
  let d := (i.gain : Int) * ((i.target : Int) - i.position)
  max (min d (i.vprev + i.acc)) (i.vprev - i.acc)

/-- the control law of the property -/
def spec (i : Inputs) : Int :=
  let a2 := max (min (limited i) i.vmax) (-(i.vmax : Int))
  let a3 := if i.low && decide (a2 < 0) then 0 else a2
  if i.high && decide (a3 > 0) then 0 else a3

/-- the property's hypotheses -/
def Hyp (i : Inputs) : Prop :=
  i.vmax ≤ 32767 ∧ -(i.vmax : Int) ≤ i.vprev ∧ i.vprev ≤ i.vmax ∧
  -(2 ^ 63 : Int) ≤ (i.gain : Int) * ((i.target : Int) - i.position) ∧
  (i.gain : Int) * ((i.target : Int) - i.position) < 2 ^ 63 ∧ i.acc < 2 ^ 32

/-- (historical) the class in which the code before the `fix:` commit failed: the acceleration-limited value does
not fit the 16-bit output -/
def AccelWrap (i : Inputs) : Prop := limited i < -32768 ∨ 32767 < limited i

instance (i : Inputs) : Decidable (AccelWrap i) := by unfold AccelWrap; infer_instance
instance (i : Inputs) : Decidable (Hyp i) := by unfold Hyp; infer_instance

end Ebv.Motor
