import Ebv.Model.Float64
/-! # Python side of `x` array-map variables over a *history* of uses

`ArrayGlobalVarDesc.__set__` / `unpack` (ebpfcat/arraymap.py) on loaded programs: several program instances (main
programs, sub-programs, instances of one class and of derived classes share the descriptor objects), each with its own
variables in a map; between two assignments from Python anything may have written the variables (the instance's eBPF
program ran, an integer was assigned).  The state is nothing but the raw 64-bit contents: there is no memo of earlier
assignments, and a descriptor keeps nothing per instance. -/
namespace Ebv.FixedStore
open Ebv.F64

/-- raw contents: instance → variable → int64 -/
abbrev Store := Nat → Nat → Int

inductive Op where
  /-- Python: `inst.var = <the decimal n/10^5>` on a loaded program -/
  | set (i v : Nat) (n : Int)
  /-- anything else that writes variables of instance `i`: its eBPF program ran (the values are what the arithmetic
  part of the property says it computes), an integer variable was assigned -/
  | write (i : Nat) (ws : List (Nat × Int))
  /-- Python reads `inst.var` -/
  | get (i v : Nat)

def upd (s : Store) (i v : Nat) (x : Int) : Store := fun j w => if j = i ∧ w = v then x else s j w

def writes (s : Store) (i : Nat) : List (Nat × Int) → Store
  | [] => s
  | (v, x) :: ws => writes (upd s i v x) i ws

def step (s : Store) : Op → Store
  | .set i v n => upd s i v (decConst n)
  | .write i ws => writes s i ws
  | .get _ _ => s

def run (s : Store) (h : List Op) : Store := h.foldl step s

/-- what Python sees when it reads an `x` variable -/
def read (s : Store) (i v : Nat) : Rat := pyGet (s i v)

def Op.inst : Op → Nat
  | .set i _ _ => i
  | .write i _ => i
  | .get i _ => i

/-- the operation may change variable `v` of instance `i` -/
def Op.touches (i v : Nat) : Op → Bool
  | .set j w _ => j == i && w == v
  | .write j ws => j == i && ws.any (·.1 == v)
  | .get _ _ => false

/-! ## the variant with a memo of the value last assigned (what the code must NOT do) -/

/-- memo: instance → variable → last value assigned from Python -/
abbrev Memo := Nat → Nat → Option Int

def stepMemo (sm : Store × Memo) : Op → Store × Memo
  | .set i v n =>
    if sm.2 i v = some n then sm
    else (upd sm.1 i v (decConst n), fun j w => if j = i ∧ w = v then some n else sm.2 j w)
  | .write i ws => (writes sm.1 i ws, sm.2)
  | .get _ _ => sm

def runMemo (sm : Store × Memo) (h : List Op) : Store × Memo := h.foldl stepMemo sm

end Ebv.FixedStore
