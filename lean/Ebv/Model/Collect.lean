import Ebv.Model.Bytes
import Ebv.Generated.Consts
/-! Layout of array-map variables (`ArrayMap.collect`), the Python-side accessors
(`ArrayGlobalVarDesc.__set__/unpack`, `PerCPUVar.__getitem__`), the byte-level view of the
program-side access, map discovery (`EBPF.__init__`, `SimulatedEBPF.__init__`) and the
`DeviceVar` dispatch.  Shared by C08 and C29.  Core Lean only. -/
namespace Ebv.Collect
open Ebv.Bytes

/-! ## formats: `x`, or `[<>!=@]?[count]c` with `c` one of `bBhHiIqQ` -/

inductive Ch | b | B | h | H | i | I | q | Q
  deriving DecidableEq, Repr, Inhabited

def Ch.idx : Ch → Nat
  | .b => 0 | .B => 1 | .h => 2 | .H => 3 | .i => 4 | .I => 5 | .q => 6 | .Q => 7

/-- `fmtsize(c)` as the real function reports it (regenerated table) -/
def Ch.size (c : Ch) : Nat := Consts.arraymap_fmtsizes.getD c.idx 0

def Ch.signed : Ch → Bool
  | .b | .h | .i | .q => true
  | _ => false

inductive Fmt
  | fixed                                  -- "x": a `q` holding value * FIXED_BASE
  | arr (big : Bool) (count : Nat) (c : Ch)
  deriving DecidableEq, Repr, Inhabited

def fmtsize : Fmt → Nat
  | .fixed => Consts.arraymap_fmtsize_x
  | .arr _ n c => n * c.size

def chOfChar : Char → Option Ch
  | 'b' => some .b | 'B' => some .B | 'h' => some .h | 'H' => some .H
  | 'i' => some .i | 'I' => some .I | 'q' => some .q | 'Q' => some .Q
  | _ => none

def digitsVal : List Char → Option Nat
  | [] => none
  | cs => cs.foldl (fun acc c => do
      let a ← acc
      if '0' ≤ c ∧ c ≤ '9' then some (a * 10 + (c.toNat - 48)) else none) (some 0)

/-- the struct format strings the model covers (little-endian host: native = little) -/
def parseFmt (s : String) : Option Fmt :=
  if s = "x" then some .fixed else
  let cs := s.toList
  let (big, cs) := match cs with
    | '>' :: r => (true, r) | '!' :: r => (true, r)
    | '<' :: r => (false, r) | '=' :: r => (false, r) | '@' :: r => (false, r)
    | r => (false, r)
  match cs.reverse with
  | [] => none
  | c :: revDigits => do
    let ch ← chOfChar c
    let n ← if revDigits.isEmpty then some 1 else digitsVal revDigits.reverse
    pure (.arr big n ch)

/-! ## declarations and `ArrayMap.collect` -/

structure Decl where
  name : Nat
  map : Nat
  fmt : Fmt
  deriving Repr, Inhabited

/-- one class: its `__dict__` entries that are variables of some array map, in order -/
abbrev Cls := List Decl

/-- one program instance (the EBPF object or a subprogram): identity and MRO -/
structure Prog where
  id : Nat
  mro : List Cls
  deriving Repr, Inhabited

structure Triple where
  size : Nat
  prog : Nat
  name : Nat
  deriving DecidableEq, Repr, Inhabited

abbrev Key := Nat × Nat
def Triple.key (t : Triple) : Key := (t.prog, t.name)

/-- inner loop of `collect` over one class, with that class's own `unique` set -/
def classTriplesGo (m pid : Nat) : Cls → List Nat → List Triple
  | [], _ => []
  | d :: ds, seen =>
    if d.map = m ∧ ¬ seen.contains d.name then
      ⟨fmtsize d.fmt, pid, d.name⟩ :: classTriplesGo m pid ds (d.name :: seen)
    else classTriplesGo m pid ds seen

def classTriples (m pid : Nat) (cls : Cls) : List Triple := classTriplesGo m pid cls []

/-- `for prog in chain([ebpf], ebpf.subprograms): for cls in prog.__class__.__mro__: …` -/
def triples (m : Nat) (progs : List Prog) : List Triple :=
  progs.flatMap fun p => p.mro.flatMap (classTriples m p.id)

/-- stable insertion for `sort(key=size, reverse=True)`: `t` stood before everything in the list -/
def insertDesc (t : Triple) : List Triple → List Triple
  | [] => [t]
  | u :: us => if t.size < u.size then u :: insertDesc t us else t :: u :: us

def sortDesc : List Triple → List Triple
  | [] => []
  | t :: ts => insertDesc t (sortDesc ts)

/-- `prog.__dict__[name] = position; position += size` -/
def place : Nat → List Triple → List (Triple × Nat)
  | _, [] => []
  | pos, t :: ts => (t, pos) :: place (pos + t.size) ts

def sumSizes : List Triple → Nat
  | [] => 0
  | t :: ts => t.size + sumSizes ts

/-- `((position + 7) // 8) * 8` with the regenerated granularity -/
def roundUp (a n : Nat) : Nat := ((n + (a - 1)) / a) * a

def total (ts : List Triple) : Nat := roundUp Consts.arraymap_align (sumSizes (sortDesc ts))

/-- later writes to `prog.__dict__[name]` overwrite earlier ones -/
def lookupLast (k : Key) : List (Triple × Nat) → Option Nat
  | [] => none
  | (t, p) :: r =>
    match lookupLast k r with
    | some q => some q
    | none => if t.key = k then some p else none

def positionOf (ts : List Triple) (k : Key) : Option Nat := lookupLast k (place 0 (sortDesc ts))

/-- size of the descriptor attribute lookup finds: the first one in MRO order -/
def accessSizeOf (ts : List Triple) (k : Key) : Option Nat := (ts.find? (·.key = k)).map (·.size)

def rangeOf (ts : List Triple) (k : Key) : Option (Nat × Nat) := do
  let p ← positionOf ts k
  let s ← accessSizeOf ts k
  pure (p, s)

def keysOf (ts : List Triple) : List Key := (ts.map Triple.key).eraseDups

/-- the descriptor Python finds for `prog.name` (first class in the MRO that has it) -/
def resolve (p : Prog) (name : Nat) : Option Decl := p.mro.flatten.find? (·.name = name)

def findProg (progs : List Prog) (pid : Nat) : Option Prog := progs.find? (·.id = pid)

/-- executable check of the layout property (used by the driver and the refutation) -/
def disjointB (a b : Nat × Nat) : Bool := a.1 + a.2 ≤ b.1 || b.1 + b.2 ≤ a.1

def layoutOkB (ts : List Triple) : Bool :=
  let ks := keysOf ts
  ks.all (fun k₁ => ks.all fun k₂ =>
    k₁ == k₂ || match rangeOf ts k₁, rangeOf ts k₂ with
      | some r₁, some r₂ => disjointB r₁ r₂
      | _, _ => false) &&
  ks.all (fun k => match rangeOf ts k with
    | some (p, s) => p + s ≤ total ts
    | none => false)

end Ebv.Collect
