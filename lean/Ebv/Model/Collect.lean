import Ebv.Model.Bytes
import Ebv.Generated.Consts
/-! Layout of array-map variables (`ArrayMap.collect`), the Python-side accessors
(`ArrayGlobalVarDesc.__set__/unpack`, `PerCPUVar.__getitem__`), the byte-level view of the
program-side access, map discovery (`EBPF._maps`, `SimulatedEBPF.__init__`) and the
`DeviceVar` dispatch.  Shared by C08 and C29.  Core Lean only. -/
namespace Ebv.Collect
open Ebv.Bytes

/-! ## formats: `x`, or `[<>!=@]?[count]c` with `c` one of `bBhHiIqQ` -/

inductive Ch | b | B | h | H | i | I | q | Q
  deriving DecidableEq, Repr, Inhabited

def Ch.idx : Ch → Nat
  | .b => 0 | .B => 1 | .h => 2 | .H => 3 | .i => 4 | .I => 5 | .q => 6 | .Q => 7

/-- `fmtsize(c)` as the real function reports it (regenerated table) -/
def Ch.size (c : Ch) : Nat := Consts.arraymap_fmtsizes.getD c.idx 0

def Ch.signed : Ch → Bool
  | .b | .h | .i | .q => true
  | _ => false

/-- native alignment of a member inside a multi-member format (regenerated from the real `calcsize`) -/
def Ch.align (c : Ch) : Nat := Consts.arraymap_aligns.getD c.idx 1

inductive Fmt
  | fixed                                  -- "x": a `q` holding value * FIXED_BASE
  | arr (big : Bool) (count : Nat) (c : Ch)
  | mixed (packed : Bool) (big : Bool) (cs : List Ch)   -- several letters; native mode pads members to their alignment
  deriving DecidableEq, Repr, Inhabited

def roundUp (a n : Nat) : Nat := ((n + (a - 1)) / a) * a

/-- where a member starts when the previous one ended at `pos` (relative to the start of the struct) -/
def memberOff (packed : Bool) (c : Ch) (pos : Nat) : Nat := if packed then pos else roundUp c.align pos

/-- `calcsize`: end of the last member; no trailing padding -/
def endM (packed : Bool) : Nat → List Ch → Nat
  | pos, [] => pos
  | pos, c :: cs => endM packed (memberOff packed c pos + c.size) cs

def fmtsize : Fmt → Nat
  | .fixed => Consts.arraymap_fmtsize_x
  | .arr _ n c => n * c.size
  | .mixed packed _ cs => endM packed 0 cs

def chOfChar : Char → Option Ch
  | 'b' => some .b | 'B' => some .B | 'h' => some .h | 'H' => some .H
  | 'i' => some .i | 'I' => some .I | 'q' => some .q | 'Q' => some .Q
  | _ => none

def digitsVal : List Char → Option Nat
  | [] => none
  | cs => cs.foldl (fun acc c => do
      let a ← acc
      if '0' ≤ c ∧ c ≤ '9' then some (a * 10 + (c.toNat - 48)) else none) (some 0)

/-- `[count]letter` groups, counts expanded -/
def parseGroups : List Char → Option Nat → Option (List Ch)
  | [], none => some []
  | [], some _ => none
  | c :: r, acc =>
    if '0' ≤ c ∧ c ≤ '9' then parseGroups r (some (acc.getD 0 * 10 + (c.toNat - 48)))
    else do
      let ch ← chOfChar c
      let rest ← parseGroups r none
      pure (List.replicate (acc.getD 1) ch ++ rest)

/-- the struct format strings the model covers (little-endian host: native byte order = little) -/
def parseFmt (s : String) : Option Fmt :=
  if s = "x" then some .fixed else
  let cs := s.toList
  let (packed, big, cs) := match cs with
    | '>' :: r => (true, true, r) | '!' :: r => (true, true, r)
    | '<' :: r => (true, false, r) | '=' :: r => (true, false, r) | '@' :: r => (false, false, r)
    | r => (false, false, r)
  if (cs.filter fun c => !('0' ≤ c ∧ c ≤ '9')).length = 1 then
    match cs.reverse with
    | [] => none
    | c :: revDigits => do
      let ch ← chOfChar c
      let n ← if revDigits.isEmpty then some 1 else digitsVal revDigits.reverse
      pure (.arr big n ch)
  else do
    let ms ← parseGroups cs none
    if ms.isEmpty then none else pure (.mixed packed big ms)

/-! ## declarations and `ArrayMap.collect` -/

structure Decl where
  name : Nat
  map : Nat
  fmt : Fmt
  deriving Repr, Inhabited

/-- one class: its `__dict__` entries that are variables of some array map, in order -/
abbrev Cls := List Decl

/-- one program instance (the EBPF object or a subprogram): identity and MRO -/
structure Prog where
  id : Nat
  mro : List Cls
  deriving Repr, Inhabited

structure Triple where
  size : Nat
  prog : Nat
  name : Nat
  deriving DecidableEq, Repr, Inhabited

abbrev Key := Nat × Nat
def Triple.key (t : Triple) : Key := (t.prog, t.name)

/-- inner loops of `collect` for one program instance: all classes of its MRO in order, one `unique`
set for the instance (an overriding declaration hides the inherited one) -/
def classTriplesGo (m pid : Nat) : Cls → List Nat → List Triple
  | [], _ => []
  | d :: ds, seen =>
    if d.map = m ∧ ¬ seen.contains d.name then
      ⟨fmtsize d.fmt, pid, d.name⟩ :: classTriplesGo m pid ds (d.name :: seen)
    else classTriplesGo m pid ds seen

def progTriples (m : Nat) (p : Prog) : List Triple := classTriplesGo m p.id p.mro.flatten []

/-- `dict.fromkeys(chain([ebpf], ebpf.subprograms))`: every program instance once, first occurrence -/
def dedupGo : List Prog → List Nat → List Prog
  | [], _ => []
  | p :: ps, seen => if seen.contains p.id then dedupGo ps seen else p :: dedupGo ps (p.id :: seen)

def dedupProgs (progs : List Prog) : List Prog := dedupGo progs []

def triples (m : Nat) (progs : List Prog) : List Triple := (dedupProgs progs).flatMap (progTriples m)

/-- stable insertion for `sort(key=size, reverse=True)`: `t` stood before everything in the list -/
def insertDesc (t : Triple) : List Triple → List Triple
  | [] => [t]
  | u :: us => if t.size < u.size then u :: insertDesc t us else t :: u :: us

def sortDesc : List Triple → List Triple
  | [] => []
  | t :: ts => insertDesc t (sortDesc ts)

/-- `prog.__dict__[name] = position; position += size` -/
def place : Nat → List Triple → List (Triple × Nat)
  | _, [] => []
  | pos, t :: ts => (t, pos) :: place (pos + t.size) ts

def sumSizes : List Triple → Nat
  | [] => 0
  | t :: ts => t.size + sumSizes ts

/- `((position + 7) // 8) * 8` is `roundUp` with the regenerated granularity -/

def total (ts : List Triple) : Nat := roundUp Consts.arraymap_align (sumSizes (sortDesc ts))

/-- later writes to `prog.__dict__[name]` overwrite earlier ones -/
def lookupLast (k : Key) : List (Triple × Nat) → Option Nat
  | [] => none
  | (t, p) :: r =>
    match lookupLast k r with
    | some q => some q
    | none => if t.key = k then some p else none

def positionOf (ts : List Triple) (k : Key) : Option Nat := lookupLast k (place 0 (sortDesc ts))

/-- size of the descriptor attribute lookup finds: the first one in MRO order -/
def accessSizeOf (ts : List Triple) (k : Key) : Option Nat := (ts.find? (·.key = k)).map (·.size)

def rangeOf (ts : List Triple) (k : Key) : Option (Nat × Nat) := do
  let p ← positionOf ts k
  let s ← accessSizeOf ts k
  pure (p, s)

def keysOf (ts : List Triple) : List Key := (ts.map Triple.key).eraseDups

/-- the descriptor Python finds for `prog.name` (first class in the MRO that has it) -/
def resolve (p : Prog) (name : Nat) : Option Decl := p.mro.flatten.find? (·.name = name)

def findProg (progs : List Prog) (pid : Nat) : Option Prog := progs.find? (·.id = pid)

/-- executable check of the layout property (used by the driver and the refutation) -/
def disjointB (a b : Nat × Nat) : Bool := a.1 + a.2 ≤ b.1 || b.1 + b.2 ≤ a.1

def layoutOkB (ts : List Triple) : Bool :=
  let ks := keysOf ts
  ks.all (fun k₁ => ks.all fun k₂ =>
    k₁ == k₂ || match rangeOf ts k₁, rangeOf ts k₂ with
      | some r₁, some r₂ => disjointB r₁ r₂
      | _, _ => false) &&
  ks.all (fun k => match rangeOf ts k with
    | some (p, s) => p + s ≤ total ts
    | none => false)

/-! ## Python side: `struct.pack` / `unpack_from` at the variable's position -/

inductive Err | struct | index | key
  deriving DecidableEq, Repr, Inhabited

def fits (c : Ch) (v : Int) : Bool := if c.signed then fitsS c.size v else fitsU c.size v

def encElem (big : Bool) (c : Ch) (v : Int) : Option (List UInt8) :=
  if fits c v then
    let u := if c.signed then ofSigned c.size v else v.toNat
    some (if big then encBE c.size u else encLE c.size u)
  else none

def decElem (big : Bool) (c : Ch) (bs : List UInt8) : Int :=
  let u := if big then decBE bs else decLE bs
  if c.signed then toSigned c.size u else (u : Int)

def packElems (big : Bool) (c : Ch) : List Int → Option (List UInt8)
  | [] => some []
  | v :: vs =>
    match encElem big c v, packElems big c vs with
    | some a, some r => some (a ++ r)
    | _, _ => none

/-- members one after the other, zero bytes in the alignment gaps (what `struct.pack` emits) -/
def packM (packed big : Bool) : Nat → List Ch → List Int → Option (List UInt8)
  | _, [], [] => some []
  | pos, c :: cs, v :: vs =>
    match encElem big c v, packM packed big (memberOff packed c pos + c.size) cs vs with
    | some e, some r => some (zeros (memberOff packed c pos - pos) ++ e ++ r)
    | _, _ => none
  | _, _, _ => none

/-- members read at their offsets from the start of the struct's bytes `bs` -/
def decM (packed big : Bool) : Nat → List Ch → List UInt8 → List Int
  | _, [], _ => []
  | pos, c :: cs, bs =>
    decElem big c (slice bs (memberOff packed c pos) (memberOff packed c pos + c.size))
      :: decM packed big (memberOff packed c pos + c.size) cs bs

/-- offset (from the start of the variable) and letter of member `j` -/
def memberAt (packed : Bool) : Nat → List Ch → Nat → Option (Nat × Ch)
  | _, [], _ => none
  | pos, c :: _, 0 => some (memberOff packed c pos, c)
  | pos, c :: cs, j + 1 => memberAt packed (memberOff packed c pos + c.size) cs j

/-- `pack(fmt, *value)`; for `x` the argument is the scaled integer `int(value * FIXED_BASE)` packed as `q` -/
def pack : Fmt → List Int → Option (List UInt8)
  | .fixed, [v] => encElem false .q v
  | .fixed, _ => none
  | .arr big n c, vs => if vs.length = n then packElems big c vs else none
  | .mixed packed big cs, vs => packM packed big 0 cs vs

def unpackElems (big : Bool) (c : Ch) : Nat → List UInt8 → List Int
  | 0, _ => []
  | n + 1, bs => decElem big c (bs.take c.size) :: unpackElems big c n (bs.drop c.size)

def decode : Fmt → List UInt8 → List Int
  | .fixed, bs => [decElem false .q (bs.take Ch.q.size)]
  | .arr big n c, bs => unpackElems big c n bs
  | .mixed packed big cs, bs => decM packed big 0 cs bs

/-- `unpack_from(fmt, data, pos)`; `struct.error` when the buffer is too short -/
def unpack (fmt : Fmt) (data : List UInt8) (pos : Nat) : Except Err (List Int) :=
  if pos + fmtsize fmt ≤ data.length then .ok (decode fmt (slice data pos (pos + fmtsize fmt)))
  else .error .struct

/-- `b = pack(fmt, *value); data[pos:pos + len(b)] = b` on an mmap (fixed size) -/
def pySet (data : List UInt8) (fmt : Fmt) (pos : Nat) (vs : List Int) : Except Err (List UInt8) :=
  match pack fmt vs with
  | none => .error .struct
  | some b => if pos + b.length ≤ data.length then .ok (setRange data pos b) else .error .index

/-- `PerCPUVar.__getitem__`: `unpack(instance, data[key * map.size:])` -/
def percpuGet (data : List UInt8) (mapSize cpus : Nat) (fmt : Fmt) (pos : Nat) (k : Int) :
    Except Err (List Int) :=
  if 0 ≤ k ∧ k < cpus then unpack fmt (data.drop (k.toNat * mapSize)) pos else .error .index

/-- what a per-CPU lookup returns: one block per possible CPU, each `round_up(value_size, 8)` long -/
def kernelStride (valueSize : Nat) : Nat := roundUp 8 valueSize

/-! ## program side, as bytes: an `n`-byte store/load at `r[base] + position` -/

/-- the generated store writes the low `n` bytes of the register (after the byte swap for `>`) -/
def progStore (data : List UInt8) (big : Bool) (c : Ch) (pos : Nat) (v : Int) : Except Err (List UInt8) :=
  let n := c.size
  let u := (v % 2 ^ (8 * n)).toNat
  if pos + n ≤ data.length then .ok (setRange data pos (if big then encBE n u else encLE n u))
  else .error .index          -- outside the map value: the verifier refuses / the interpreter faults

/-- the generated load: zero- or sign-extended `n` bytes -/
def progLoad (data : List UInt8) (big : Bool) (c : Ch) (pos : Nat) : Except Err Int :=
  if pos + c.size ≤ data.length then .ok (decElem big c (slice data pos (pos + c.size)))
  else .error .index

/-- single-element view of a format for the program side (`x` is a `q`) -/
def Fmt.single : Fmt → Option (Bool × Ch)
  | .fixed => some (false, .q)
  | .arr big 1 c => some (big, c)
  | _ => none

/-! ## which maps are initialised for an object -/

structure MapAttr where
  attr : Nat
  map : Nat
  deriving DecidableEq, Repr, Inhabited

/-- `SimulatedEBPF.__init__`: the whole MRO, first attribute of each name -/
def simDiscoverGo : List MapAttr → List Nat → List MapAttr
  | [], _ => []
  | a :: as, seen => if seen.contains a.attr then simDiscoverGo as seen else a :: simDiscoverGo as (a.attr :: seen)

def simDiscover (mro : List (List MapAttr)) : List MapAttr := simDiscoverGo mro.flatten []

/-- `EBPF._maps()` (used by `__init__`, `pin_maps`, `load`): the same walk, `ret.setdefault(k, v)` -/
def ebpfDiscover (mro : List (List MapAttr)) : List MapAttr := simDiscoverGo mro.flatten []

/-- each discovered map is collected and gets an array of the collected size -/
def initMaps (found : List MapAttr) (progs : List Prog) : List (MapAttr × Nat) :=
  found.map fun a => (a, total (triples a.map progs))

/-! ## the `__dict__`s outlive a layout

`collect` stores each position in the `__dict__` of the program *instance* (`prog.__dict__[name] = position`),
and the accessors read it from there (`fmt_addr`: `ebpf.__dict__[self.name]`).  An instance can be laid out
more than once: a device that is put into another sync group, a subprogram handed to a second program, a
group that is created again with other devices.  `Dicts` is what all `__dict__`s hold, latest entry first;
`collect` writes every collected variable anew, whatever was there. -/

abbrev Dicts := List (Key × Nat)

def Dicts.get (σ : Dicts) (k : Key) : Option Nat := (σ.find? (·.1 = k)).map (·.2)

/-- the loop `prog.__dict__[name] = position` over the placed collection -/
def writeAll (σ : Dicts) : List (Triple × Nat) → Dicts
  | [] => σ
  | (t, p) :: r => writeAll ((t.key, p) :: σ) r

/-- `map.collect(ebpf)` on instances that may have been laid out before -/
def collectInto (σ : Dicts) (m : Nat) (progs : List Prog) : Dicts :=
  writeAll σ (place 0 (sortDesc (triples m progs)))

/-- `__init__` of an EBPF / SimulatedEBPF object: every discovered map is collected, in discovery order -/
def collectAll (σ : Dicts) (found : List MapAttr) (progs : List Prog) : Dicts :=
  found.foldl (fun acc a => collectInto acc a.map progs) σ

/-! ## an object with its maps: state and operations (what the drivers run) -/

structure St where
  progs : List Prog
  arrays : List (Nat × List UInt8)      -- map id → bytes, for the initialised maps
  dicts : Dicts                         -- the positions in the instances' `__dict__`s
  deriving Repr, Inhabited

def St.array (s : St) (m : Nat) : Option (List UInt8) := (s.arrays.find? (·.1 = m)).map (·.2)

def St.setArray (s : St) (m : Nat) (d : List UInt8) : St :=
  { s with arrays := s.arrays.map fun a => if a.1 = m then (m, d) else a }

/-- `if not self.size: return` — a map nobody uses is never created -/
def mkStFrom (σ : Dicts) (found : List MapAttr) (progs : List Prog) : St :=
  ⟨progs, ((initMaps found progs).filter fun (_, sz) => sz != 0).map fun (a, sz) => (a.map, zeros sz),
   collectAll σ found progs⟩

/-- the first object of a process: no instance has been laid out before -/
def mkSt (found : List MapAttr) (progs : List Prog) : St := mkStFrom [] found progs

/-- descriptor, map bytes and position behind `prog.name`; `KeyError` when not collected -/
def St.locate (s : St) (pid name : Nat) : Except Err (Decl × List UInt8 × Nat) :=
  match (findProg s.progs pid).bind (resolve · name) with
  | none => .error .key
  | some d =>
    match s.array d.map, s.dicts.get (pid, name) with
    | some data, some pos => .ok (d, data, pos)
    | _, _ => .error .key

inductive Op
  | pySet (pid name : Nat) (vs : List Int)
  | progStore (pid name : Nat) (v : Int)
  | progCopy (spid sname dpid dname : Nat)
  | progStoreM (pid name j : Nat) (v : Int)             -- store into member `j` of a multi-member variable
  | progCopyM (spid sname j dpid dname : Nat)           -- load member `j`, store it into a single variable
  deriving Repr, Inhabited

def St.store (s : St) (pid name : Nat) (v : Int) : Except Err St := do
  let (d, data, pos) ← s.locate pid name
  match d.fmt.single with
  | none => .error .struct
  | some (big, c) => pure (s.setArray d.map (← progStore data big c pos v))

/-- member `j` of the variable: map bytes, absolute position, byte order and letter
(the program adds the member's natural offset to the variable's address) -/
def St.locateM (s : St) (pid name j : Nat) : Except Err (Decl × List UInt8 × Nat × Bool × Ch) := do
  let (d, data, pos) ← s.locate pid name
  match d.fmt with
  | .mixed packed big cs =>
    match memberAt packed 0 cs j with
    | some (off, c) => pure (d, data, pos + off, big, c)
    | none => .error .struct
  | _ => .error .struct

def St.step (s : St) : Op → Except Err St
  | .pySet pid name vs => do
    let (d, data, pos) ← s.locate pid name
    pure (s.setArray d.map (← pySet data d.fmt pos vs))
  | .progStore pid name v => s.store pid name v
  | .progCopy spid sname dpid dname => do
    let (sd, sdata, spos) ← s.locate spid sname
    match sd.fmt.single with
    | none => .error .struct
    | some (big, c) => s.store dpid dname (← progLoad sdata big c spos)
  | .progStoreM pid name j v => do
    let (d, data, mpos, big, c) ← s.locateM pid name j
    pure (s.setArray d.map (← progStore data big c mpos v))
  | .progCopyM spid sname j dpid dname => do
    let (_, data, mpos, big, c) ← s.locateM spid sname j
    s.store dpid dname (← progLoad data big c mpos)

def St.pyGet (s : St) (pid name : Nat) : Except Err (List Int) := do
  let (d, data, pos) ← s.locate pid name
  unpack d.fmt data pos

/-- run the operations; an operation that raises leaves the state as it was -/
def St.run (s : St) : List Op → St × List (Option Err)
  | [] => (s, [])
  | op :: ops =>
    match s.step op with
    | .ok s' => let (f, es) := s'.run ops; (f, none :: es)
    | .error e => let (f, es) := s.run ops; (f, some e :: es)

/-- one program invocation: the verifier checks every (constant-offset) map access before anything
runs, so a program with one access outside the map value has no effect at all -/
def St.runProgram (s : St) (ops : List Op) : St × Option Err :=
  match ops.foldlM (fun st op => st.step op) s with
  | .ok s' => (s', none)
  | .error e => (s, some e)

/-! ## several objects in one process

Objects (EBPF programs with their subprograms, sync groups with their devices) are created one after the
other and stay in use.  `p.ebpf = self` makes every listed subprogram belong to the object created last
with it; an access through an instance goes to the array of the object it belongs to, at the position its
`__dict__` holds. -/

structure Obj where
  main : Nat                            -- identity of the EBPF object / sync group
  progs : List Prog                     -- the object itself and its subprograms, as listed
  arrays : List (Nat × List UInt8)
  deriving Repr, Inhabited

structure World where
  dicts : Dicts
  owner : List (Nat × Nat)              -- instance ↦ the object it belongs to, latest first
  objs : List Obj                       -- latest first
  deriving Repr, Inhabited

def World.empty : World := ⟨[], [], []⟩

/-- a new object: its maps are discovered and collected, every listed instance now belongs to it -/
def World.create (w : World) (main : Nat) (found : List MapAttr) (progs : List Prog) : World :=
  ⟨(mkStFrom w.dicts found progs).dicts,
   progs.map (fun p => (p.id, main)) ++ w.owner,
   ⟨main, progs, (mkStFrom w.dicts found progs).arrays⟩ :: w.objs⟩

def World.objOf (w : World) (pid : Nat) : Option Obj :=
  (w.owner.find? (·.1 = pid)).bind fun o => w.objs.find? (·.main = o.2)

/-- the object an instance belongs to, as the accessors see it -/
def World.view (w : World) (o : Obj) : St := ⟨o.progs, o.arrays, w.dicts⟩

def World.putArrays (w : World) (main : Nat) (arrays : List (Nat × List UInt8)) : World :=
  { w with objs := w.objs.map fun x => if x.main = main then { x with arrays := arrays } else x }

def World.setWith (w : World) (pid name : Nat) (vs : List Int) : Option Obj → Except Err World
  | none => .error .key
  | some o => ((w.view o).step (.pySet pid name vs)).map fun s' => w.putArrays o.main s'.arrays

/-- `instance.name = value` from Python -/
def World.pySet (w : World) (pid name : Nat) (vs : List Int) : Except Err World :=
  w.setWith pid name vs (w.objOf pid)

def World.getWith (w : World) (pid name : Nat) : Option Obj → Except Err (List Int)
  | none => .error .key
  | some o => (w.view o).pyGet pid name

/-- `instance.name` from Python -/
def World.pyGet (w : World) (pid name : Nat) : Except Err (List Int) := w.getWith pid name (w.objOf pid)

/-- only creations touch the `__dict__`s -/
structure NewObj where
  found : List MapAttr
  progs : List Prog
  deriving Repr, Inhabited

def runNews (σ : Dicts) : List NewObj → Dicts
  | [] => σ
  | o :: os => runNews (collectAll σ o.found o.progs) os

/-! ## `DeviceVar.__get__/__set__`: dispatch on the device's sync group -/

inductive GroupKind
  | none        -- `sync_group is None`
  | plain       -- a sync group that is no `EBPFBase` (slow `SyncGroup`)
  | loaded      -- an `EBPFBase` with `loaded` true (`ProcessSyncGroup`, loaded `FastSyncGroup`)
  deriving DecidableEq, Repr, Inhabited

inductive GetRes
  | selfRef                      -- `(instance, name)`
  | val (vs : List Int)
  | err (e : Err)
  deriving Repr, Inhabited

/-- `dict` is the device's own `__dict__[name]` (plain groups keep the value there) -/
def devGet (kind : GroupKind) (dict : Option (List Int)) (arr : Except Err (List Int)) : GetRes :=
  match kind with
  | .none => .selfRef
  | .plain => .val (dict.getD [0])
  | .loaded => match arr with | .ok v => .val v | .error e => .err e

end Ebv.Collect
