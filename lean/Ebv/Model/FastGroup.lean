import Ebv.Model.Bytes
import Ebv.Generated.Consts
/-! Model of the kernel side of a fast sync group: `FastSyncGroup.program` with
`SterilePacket.activate` (ebpfcat/ebpfcat.py), on the bytes of the received packet
(Ethernet header included) and the group's `wkc_errors` variable; and of
`SterilePacket.sterile` on the user-space side. -/
namespace Ebv.FastGroup
open Ebv.Consts

def M32 : Nat := 4294967296

/-- a write datagram of the frame, by the packet offsets the generated program touches -/
structure Writer where
  cmdPos : Nat      -- on_the_fly start + ETHERNET_HEADER: the command byte
  wkcPos : Nat      -- on_the_fly stop + ETHERNET_HEADER - 2: the 16-bit working counter
  cmd : Nat         -- the real command (FPWR, LWR, …)
  expected : Nat    -- working counter user space preset
deriving Repr, DecidableEq

def wkcAt (p : List UInt8) (pos : Nat) : Nat := (p.getD pos 0).toNat + 256 * (p.getD (pos + 1) 0).toNat

def activateOne (w : Writer) (p : List UInt8) (errors : Nat) : List UInt8 × Nat :=
  (((p.set w.cmdPos (UInt8.ofNat w.cmd)).set w.wkcPos 0).set (w.wkcPos + 1) 0,
   if wkcAt p w.wkcPos ≠ w.expected then (errors + 1) % M32 else errors)

def activateAll : List Writer → List UInt8 → Nat → List UInt8 × Nat
  | [], p, e => (p, e)
  | w :: ws, p, e =>
    let (p1, e1) := activateOne w p e
    activateAll ws p1 e1

/-- `FastSyncGroup.program` without devices: returns (packet, wkc_errors); the XDP action is always TX.
`size` is `packet.size` of the group's SterilePacket. -/
def program (ws : List Writer) (size : Nat) (p : List UInt8) (errors : Nat) : List UInt8 × Nat :=
  if ¬ p.length > size + ETHERNET_HEADER - 1 then (p, errors)
  else if errors = 0 then (p, errors)
  else activateAll ws p errors

/-- did the pass enable the writers? -/
def enables (size : Nat) (p : List UInt8) (errors : Nat) : Bool :=
  decide (p.length > size + ETHERNET_HEADER - 1) && decide (errors ≠ 0)

/-- `SterilePacket.sterile`: the assembled frame (no Ethernet header) with the command byte of every
write datagram replaced by NOP -/
def sterile (starts : List Nat) (frame : List UInt8) : List UInt8 :=
  starts.foldl (fun f pos => f.set pos (UInt8.ofNat cmd_NOP)) frame

def mismatches (ws : List Writer) (p : List UInt8) : Nat :=
  (ws.filter fun w => wkcAt p w.wkcPos ≠ w.expected).length

/-- positions of different writers do not collide and lie inside the packet -/
def positions (w : Writer) : List Nat := [w.cmdPos, w.wkcPos, w.wkcPos + 1]

def wf (ws : List Writer) (len : Nat) : Bool :=
  (ws.all fun w => decide (w.cmdPos < len ∧ w.wkcPos + 1 < len ∧ w.cmdPos ≠ w.wkcPos ∧ w.cmdPos ≠ w.wkcPos + 1 ∧ w.cmd < 256)) &&
  (ws.flatMap positions).Nodup

/-! ### what decides the writers: building the group's `SterilePacket`

    def __init__(self):            size = PACKET_HEADER; on_the_fly = []; counters = {}     (per packet)
    def append_writer(cmd, ...):   start = self.size; self.append(...); self.on_the_fly.append((start, self.size, cmd))
    def append(cmd, data, ..., counter=1):
        self.size += DATAGRAM_HEADER + len(data) + DATAGRAM_TAIL;  self.counters[self.size - 2] = counter

`activate` compiles one writer per `on_the_fly` entry, with `self.counters[stop - 2]` as the expected counter. -/

/-- a datagram as it is appended: by `append_writer` or `append`, command, data length, expected working counter -/
structure Dgram where
  writer : Bool
  cmd : Nat
  len : Nat
  counter : Nat
deriving Repr, DecidableEq

structure Pkt where
  size : Nat
  onTheFly : List (Nat × Nat × Nat)     -- (start, stop, command)
  counters : List (Nat × Nat)           -- the dict, in order of assignment (a later assignment to a key wins)
deriving Repr, DecidableEq

/-- a new `SterilePacket()` -/
def Pkt.empty : Pkt := ⟨PACKET_HEADER, [], []⟩

def Pkt.add (p : Pkt) (d : Dgram) : Pkt :=
  { size := p.size + DATAGRAM_HEADER + d.len + DATAGRAM_TAIL,
    onTheFly := if d.writer then p.onTheFly ++ [(p.size, p.size + DATAGRAM_HEADER + d.len + DATAGRAM_TAIL, d.cmd)] else p.onTheFly,
    counters := p.counters ++ [(p.size + DATAGRAM_HEADER + d.len + DATAGRAM_TAIL - DATAGRAM_TAIL, d.counter)] }

def buildFrom (p : Pkt) (ds : List Dgram) : Pkt := ds.foldl Pkt.add p

/-- the packet of a group: a new packet, then the datagrams of its own layout -/
def build (ds : List Dgram) : Pkt := buildFrom Pkt.empty ds

/-- `self.counters[pos]`; `none` = KeyError -/
def Pkt.counterAt (p : Pkt) (pos : Nat) : Option Nat := p.counters.reverse.lookup pos

def Pkt.writerOf (p : Pkt) (e : Nat × Nat × Nat) : Option Writer :=
  (p.counterAt (e.2.1 - DATAGRAM_TAIL)).map fun c =>
    { cmdPos := e.1 + ETHERNET_HEADER, wkcPos := e.2.1 + ETHERNET_HEADER - DATAGRAM_TAIL, cmd := e.2.2, expected := c }

/-- the writers `activate` compiles into the program; `none` = KeyError while generating -/
def Pkt.writers (p : Pkt) : Option (List Writer) := p.onTheFly.mapM p.writerOf

/-- the positions `sterile` sets to NOP -/
def Pkt.starts (p : Pkt) : List Nat := p.onTheFly.map (·.1)

/-- the write datagrams of a layout, from the datagram list alone: the datagram that begins at `pos` -/
def declaredFrom (pos : Nat) : List Dgram → List Writer
  | [] => []
  | d :: ds =>
    (if d.writer then [{ cmdPos := pos + ETHERNET_HEADER,
                         wkcPos := pos + DATAGRAM_HEADER + d.len + DATAGRAM_TAIL + ETHERNET_HEADER - DATAGRAM_TAIL,
                         cmd := d.cmd, expected := d.counter : Writer }] else []) ++
    declaredFrom (pos + DATAGRAM_HEADER + d.len + DATAGRAM_TAIL) ds

def declared (ds : List Dgram) : List Writer := declaredFrom PACKET_HEADER ds

end Ebv.FastGroup
