import Ebv.Model.Bytes
/-! Model of what the generated code for packet variables (`xdp.PacketVar`, `pB/pH/pI/pQ`,
`ebpf.Memory.calculate/_set`, `SwitchEndian`, `Constant.switch_endian`) computes, per struct
format, transcribed from the emitted instructions (load, shift pair for sign extension,
LE/BE instruction, store) on a little-endian host; and the `struct` semantics it is
compared with.  Values are naturals modulo 2^64 (register contents). -/
namespace Ebv.PktVar
open Ebv.Bytes

inductive Order where
  | native | le | be
deriving Repr, DecidableEq

structure Fmt where
  n : Nat            -- 1, 2, 4, 8
  signed : Bool
  order : Order
deriving Repr, DecidableEq

def Fmt.ok (f : Fmt) : Bool := f.n = 1 || f.n = 2 || f.n = 4 || f.n = 8

def M64 : Nat := 2 ^ 64

/-- the sign-extension shift pair `load` / `Memory.calculate` append for h, b and (when long) i -/
def sext (f : Fmt) (long : Bool) (raw : Nat) : Nat :=
  let ext : Bool := f.signed && (f.n ≤ 2 || (f.n = 4 && long))
  let w := if long then 64 else 32
  if ext && decide (2 ^ (8 * f.n - 1) ≤ raw) then raw + 2 ^ w - 2 ^ (8 * f.n) else raw

/-- the register after `dest = var`: `long` = destination is a 64-bit register view (r/sr), else 32-bit (w/sw).
Explicit byte order: unsigned load, LE/BE instruction (none for one byte), then the sign extension. -/
def readReg (f : Fmt) (long : Bool) (bs : List UInt8) : Nat :=
  let raw := decLE bs
  match f.order with
  | .native => sext f long raw
  | .le => sext f long (if f.n = 1 then raw else raw % 2 ^ (8 * f.n))                      -- LE instruction: truncate
  | .be => sext f long (if f.n = 1 then raw else decBE (encLE f.n (raw % 2 ^ (8 * f.n))))  -- BE instruction: swap

/-- what the code before the `fix:` commit computed for explicit byte orders: sign extension BEFORE the swap -/
def readRegOld (f : Fmt) (long : Bool) (bs : List UInt8) : Nat :=
  let v1 := sext f long (decLE bs)
  match f.order with
  | .native => v1
  | .le => if f.n = 1 then v1 else v1 % 2 ^ (8 * f.n)
  | .be => if f.n = 1 then v1 else decBE (encLE f.n (v1 % 2 ^ (8 * f.n)))

/-- the bytes stored by `var = register value v` -/
def writeBytes (f : Fmt) (v : Nat) : List UInt8 :=
  match f.order with
  | .native | .le => encLE f.n v
  | .be => encLE f.n (decBE (encLE f.n v))

/-- bytes stored by the read-add-write code of `var += a` (formats without XADD) and by XADD (native 4/8-byte) -/
def iaddBytes (f : Fmt) (bs : List UInt8) (a : Int) : List UInt8 :=
  writeBytes f (((readReg f (f.n = 8) bs : Int) + a) % (M64 : Int)).toNat

/-- `with packetSize > N` / `minimumPacketSize = N`: the body runs iff … -/
def guardRuns (N len : Nat) : Bool := decide (len > N)

/-! `struct` semantics -/
def unpackZ (f : Fmt) (bs : List UInt8) : Int :=
  let u := match f.order with | .be => decBE bs | _ => decLE bs
  if f.signed then toSigned f.n u else u

def packZ (f : Fmt) (v : Int) : List UInt8 :=
  match f.order with
  | .be => encBE f.n (ofSigned f.n v)
  | _ => encLE f.n (ofSigned f.n v)

/-- (historical) the class in which the code before the `fix:` commit failed: explicit byte order, signed, narrower
than the destination -/
def SignedExplicit (f : Fmt) (long : Bool) : Prop :=
  f.order ≠ .native ∧ f.signed = true ∧ 1 < f.n ∧ 8 * f.n < (if long then 64 else 32)

instance (f : Fmt) (long : Bool) : Decidable (SignedExplicit f long) := by unfold SignedExplicit; infer_instance

end Ebv.PktVar
