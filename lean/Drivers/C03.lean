import Ebv.Driver.Io
import Ebv.Model.GenCond
import Ebv.Model.CondClass
import Ebv.Props.C03
/-! Driver for C03: one JSON statement program per line (harness/vh/dsl_cond.py) → the instruction list the model
`Ebv.Gen.emitCProg` emits (or the error enum), the comparison object trees, the defect-class names, and
(after ` # `) whether the program satisfies the decidable hypothesis `Ebv.C03.progOkC` of `C03_partial`.
`parseView … parseVar` are copies of the parsers in Drivers/C01.lean (a driver file cannot be imported), `let`/`ref`
included. -/
open Ebv Ebv.Io Ebv.Ebpf Ebv.Gen Lean

def parseView : String → Option View
  | "r" => some .r | "sr" => some .sr | "w" => some .w | "sw" => some .sw | _ => none

def parseFmt : String → Option Fmt
  | "B" => some .B | "H" => some .H | "I" => some .I | "Q" => some .Q
  | "b" => some .b | "h" => some .h | "i" => some .i | "q" => some .q | _ => none

def parseOp : String → Option SOp
  | "+" => some .add | "-" => some .sub | "*" => some .mul | "//" => some .floordiv | "%" => some .mod
  | "&" => some .and | "|" => some .or | "^" => some .xor | "<<" => some .lsh | ">>" => some .rsh | _ => none

/-- `["let", name, a, body]` builds the object of `a` once and uses it wherever `body` says `["ref", name]` (the
harness does that with one real Python object).  The operator overloads never mutate an operand, so the shared object
is the same as a copy of its tree at every use: the parser substitutes. -/
partial def parseExprIn (bound : List (String × SExpr)) (j : Json) : Option SExpr := do
  match ← jArr j with
  | [k, a] =>
    let k ← jStr k
    if k == "c" then pure (.c (← jInt a))
    else if k == "v" then pure (.var (← jStr a))
    else if k == "ref" then (do let n ← jStr a; (bound.find? (·.1 == n)).map (·.2))
    else if k == "neg" then pure (.neg (← parseExprIn bound a))
    else if k == "abs" then pure (.abs (← parseExprIn bound a))
    else pure (.reg (← parseView k) (← jNat a))
  | [k, a, b] =>
    let k ← jStr k
    if k == "m" then pure (.m (← parseFmt (← jStr a)) (← parseExprIn bound b))
    else pure (.bin (← parseOp k) (← parseExprIn bound a) (← parseExprIn bound b))
  | [k, n, a, b] =>
    if (← jStr k) == "let" then do
      let x ← parseExprIn bound a
      parseExprIn ((← jStr n, x) :: bound) b
    else none
  | _ => none

def parseExpr (j : Json) : Option SExpr := parseExprIn [] j

def parseDest (j : Json) : Option Dest := do
  match ← jArr j with
  | [k, a] =>
    let k ← jStr k
    if k == "v" then pure (.var (← jStr a)) else pure (.reg (← parseView k) (← jNat a))
  | _ => none

def parseVar (j : Json) : Option VarDecl := do
  match ← jArr j with
  | [n, f, k] =>
    let k ← jStr k
    pure ⟨← jStr n, ← parseFmt (← jStr f), if k == "g" then .glob else .loc⟩
  | _ => none

def parseCmp : String → Option SCmp
  | "<" => some .lt | "<=" => some .le | ">" => some .gt | ">=" => some .ge | "==" => some .eq | "!=" => some .ne
  | _ => none

partial def parseCond (j : Json) : Option SCond := do
  match ← jArr j with
  | [k, a] =>
    let k ← jStr k
    if k == "truth" then pure (.truth (← parseExpr a))
    else if k == "not" then pure (.not (← parseCond a))
    else none
  | [k, a, b] =>
    let k ← jStr k
    if k == "and" then pure (.and (← parseCond a) (← parseCond b))
    else if k == "or" then pure (.or (← parseCond a) (← parseCond b))
    else none
  | [k, op, a, b] =>
    if (← jStr k) == "cmp" then pure (.cmp (← parseCmp (← jStr op)) (← parseExpr a) (← parseExpr b)) else none
  | _ => none

mutual
partial def parseStmts (js : List Json) : Option SStmt :=
  match js with
  | [] => some .skip
  | j :: rest => do pure (.seq (← parseStmt j) (← parseStmts rest))

partial def parseStmt (j : Json) : Option SStmt := do
  match ← jArr j with
  | [k, d, e] => if (← jStr k) == "set" then pure (.set (← parseDest d) (← parseExpr e)) else none
  | [k, c, a, b] =>
    let k ← jStr k
    let c ← parseCond c
    let a ← parseStmts (← jArr a)
    let els : Option SStmt ← (if b.isNull then pure none else do pure (some (← parseStmts (← jArr b))))
    if k == "if" then pure (match els with | none => .ifThen c a | some e => .ifElse c a e)
    else if k == "jif" then pure (match els with | none => .jif c a | some e => .jifElse c a e)
    else none
  | _ => none
end

def parseCProg (j : Json) : Option CProg := do
  pure ⟨← (← fArr j "owned").mapM jNat, ← (← fArr j "vars").mapM parseVar, ← parseStmts (← fArr j "body")⟩

def showInsn (i : Insn) : String := s!"{i.op}:{i.dst}:{i.src}:{i.off}:{i.imm}"

def showErr : AsmError → String
  | .asm => "asm-error"
  | .other t => "other:" ++ t

partial def showTree : Expr → String
  | .const v => s!"c{v}"
  | .reg no lg sg => (if sg then "s" else "") ++ (if lg then "r" else "w") ++ toString no
  | .bin op l r sg k =>
    let nm := match k with | .sum => "sum" | .and => "and" | .plain => op.name
    s!"({nm} {showTree l} {showTree r} {if sg then "s" else "u"})"
  | .neg a => s!"(neg {showTree a})"
  | .abs a => s!"(abs {showTree a})"
  | .mem f a => s!"(mem {f.name} {showTree a})"

def showCmpOp : CmpOp → String
  | .gt => "gt" | .ge => "ge" | .lt => "lt" | .le => "le" | .ne => "ne"

partial def showCObj : CObj → String
  | .simple op sg l r => s!"({showCmpOp op}{if op == .ne then "" else if sg then "s" else "u"} {showTree l} {showTree r})"
  | .bits l r => s!"(jset {showTree l} {showTree r})"
  | .andor isAnd a b => s!"({if isAnd then "and" else "or"} {showCObj a} {showCObj b})"
  | .inv a => s!"(not {showCObj a})"

/-- the comparison objects of all conditions, in program order (those whose construction raises are `?`) -/
partial def condTrees (env : List VarLoc) : SStmt → List String
  | .skip => []
  | .set _ _ => []
  | .seq a b => condTrees env a ++ condTrees env b
  | .ifThen c a | .jif c a => (match elabC env c with | .ok o => showCObj o | .error _ => "?") :: condTrees env a
  | .ifElse c a b | .jifElse c a b =>
    (match elabC env c with | .ok o => showCObj o | .error _ => "?") :: (condTrees env a ++ condTrees env b)

def step (j : Json) : Option String := do
  let p ← parseCProg j
  match emitCProg p with
  | .error e => pure ("err " ++ showErr e)
  | .ok code =>
    let env := layout p.vars
    let cls := (progClasses env p.owned p.body).toArray.qsort (· < ·) |>.toList
    pure ("ok " ++ joinSp (code.map showInsn) ++ " | " ++ " ; ".intercalate (condTrees env p.body)
      ++ " | " ++ (if cls.isEmpty then "-" else ",".intercalate cls)
      ++ (if Ebv.C03.progOkC p then " # P" else " # -"))

def main : IO Unit := driverMain step
