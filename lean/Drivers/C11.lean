import Ebv.Driver.Io
import Ebv.Model.Frame
open Ebv Ebv.Io Ebv.Frame Lean

/-- datagram payload: explicit hex, or the pattern `[len, a, b]` = bytes `(a + b*i) mod 256` -/
def dataOf (j : Json) : Option (List UInt8) :=
  match fBytes j "data" with
  | some b => some b
  | none =>
    match fArr j "pat" with
    | some [l, a, b] => do
      let l ← jNat l
      let a ← jNat a
      let b ← jNat b
      pure ((List.range l).map fun i => UInt8.ofNat (a + b * i))
    | _ => none

def addrOf (j : Json) : Option Addr := do
  let a ← (← fArr j "addr").mapM jInt
  match a with
  | [p, o] => pure (.node p o)
  | [l] => pure (.logical l)
  | xs => pure (.other xs.length)

def opOf (j : Json) : Option (Bool × Dgram) := do
  let w := (fBool j "w").getD false
  pure (w, { cmd := ← fNat j "cmd", data := ← dataOf j, idx := ← fInt j "idx",
             addr := ← addrOf j, wkc := ← fInt j "wkc" })

def bstr (b : Bool) : String := if b then "1" else "0"

def asmStr : Option (List UInt8) → String
  | some bs => hexOfBytes bs
  | none => "struct-error"

def runPacket (ops : List (Bool × Dgram)) (index et : Int) : String :=
  let (p, outs) := ops.foldl (fun (acc : Packet × List String) op =>
    let (p, outs) := acc
    match append p op.2 with
    | none => (p, s!"overflow:{p.size}:{bstr (full p)}" :: outs)
    | some (p', (a, b)) => (p', s!"ok:{a}:{b}:{p'.size}:{bstr (full p')}" :: outs)) (Packet.empty, [])
  joinSp outs.reverse ++ " | " ++ asmStr (assemble p index et)

def runSterile (ops : List (Bool × Dgram)) (index et : Int) : String :=
  let (s, outs) := ops.foldl (fun (acc : Sterile × List String) op =>
    let (s, outs) := acc
    match (if op.1 then s.appendWriter op.2 else s.append op.2) with
    | none => (s, s!"overflow:{s.pkt.size}:{bstr (full s.pkt)}" :: outs)
    | some s' => (s', s!"ok:{s'.pkt.size}:{bstr (full s'.pkt)}" :: outs)) (Sterile.empty, [])
  joinSp outs.reverse ++ " | " ++ asmStr (assemble s.pkt index et) ++ " | " ++ asmStr (s.sterile index et)
    ++ " | " ++ ",".intercalate (s.onTheFly.map fun (a, b, c) => s!"{a}:{b}:{c}")
    ++ " | " ++ ",".intercalate (s.counters.map fun (k, v) => s!"{k}={v}")

def step (j : Json) : Option String := do
  let kind ← fStr j "kind"
  let ops ← (← fArr j "ops").mapM opOf
  let index ← fInt j "index"
  let et ← fInt j "ethertype"
  if kind == "packet" then pure (runPacket ops index et)
  else if kind == "sterile" then pure (runSterile ops index et)
  else none

def main : IO Unit := driverMain step
