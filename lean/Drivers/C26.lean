import Ebv.Driver.Io
import Ebv.Model.Motor
open Ebv Ebv.Io Ebv.Motor Lean

def step (j : Json) : Option String := do
  let i : Inputs := { gain := ← fNat j "gain", target := ← fNat j "target", position := ← fInt j "position",
                      vprev := ← fInt j "vprev", acc := ← fNat j "acc", vmax := ← fNat j "vmax",
                      low := ← fBool j "low", high := ← fBool j "high" }
  pure s!"{program i} spec={spec i} hyp={decide (Hyp i)} wrap={decide (AccelWrap i)}"

def main : IO Unit := driverMain step
