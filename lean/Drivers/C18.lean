import Ebv.Driver.Io
import Ebv.Model.Alloc
open Ebv Ebv.Io Ebv.Alloc Lean

def colon (xs : List Nat) : String := ":".intercalate (xs.map toString)

def parseTerm (j : Json) : Option Alloc.Term := do
  let kind ← match ← fStr j "kind" with
    | "fmmu" => some Kind.fmmu
    | "direct" => some Kind.direct
    | "aero" => some (Kind.aero (← fNat j "isz") (← fNat j "osz"))
    | _ => none
  pure { position := ← fNat j "pos", inSz := ← fNat j "in", outSz := ← fNat j "out",
         inOff := ← fNat j "inoff", outOff := ← fNat j "outoff", rw := ← fBool j "rw", kind := kind }

def showRegions (o : Out) (pick : Region → Option Nat) : String :=
  ";".intercalate (o.regions.map fun rs =>
    ",".intercalate (rs.filterMap fun r => (pick r).map fun v => s!"{r.sm}:{v}"))

def showOut (o : Out) : String :=
  let p := o.f.pkt
  let pa := showRegions o (fun r => some r.start)
  let fm := showRegions o (fun r => r.logical)
  let data := ";".intercalate (p.dgrams.map fun d => colon ([d.cmd, d.len, d.fill, d.counter, 0] ++ d.addr))
  let otf := ",".intercalate (p.onTheFly.map fun (a, b, c) => colon [a, b, c])
  let cnt := ",".intercalate (p.counters.map fun (a, b) => colon [a, b])
  s!"pa={pa} fm={fm} data={data} otf={otf} cnt={cnt} size={p.size} fmmu={p.fmmuInSize}:{p.fmmuOutSize}:{p.fmmuInCount}:{p.fmmuOutCount} log={o.f.logIn}"

def step (j : Json) : Option String := do
  let inc ← match ← fStr j "master" with
    | "simple" => some Consts.fmmu_window_inc
    | "parallel" => some Consts.fmmu_lock_inc
    | _ => none
  let m : Master := ⟨← fNat j "next", inc⟩
  let gs ← (← fArr j "groups").mapM fun g => do (← fArr g "terms").mapM parseTerm
  let outs := allocGroups gs m
  pure (" || ".intercalate (outs.map fun
    | none => "overflow"
    | some o => showOut o))

def main : IO Unit := driverMain step
