import Ebv.Driver.Io
import Ebv.Model.AlDriver
open Ebv Ebv.Io Ebv.AlDriver Lean

def showEv : Ev → String
  | .write v => s!"w{v}"
  | .read _ => "r"
  | .readBlocked => "r"

def showOut : Outcome → String
  | .returned => "returned" | .fellOff => "none" | .raised => "ethercat-error"
  | .blocked => "blocked" | .valueError => "value-error"

def step (j : Json) : Option String := do
  let target ← fNat j "target"
  let rs ← (← fArr j "responses").mapM fun r => do
    let a ← jArr r
    match a with
    | [s, e, st] => pure { state := ← jNat s, err := ← jBool e, status := ← jNat st : Resp }
    | _ => none
  let (tr, o) := toOperational target rs
  pure (joinSp (tr.map showEv) ++ " | " ++ showOut o)

def main : IO Unit := driverMain step
