import Ebv.Driver.Io
import Ebv.Model.AlDriver
open Ebv Ebv.Io Ebv.AlDriver Lean

def showEv : Ev → String
  | .write v => s!"w{v}"
  | .read _ => "r"
  | .readBlocked => "r"

def showOut : Outcome → String
  | .returned => "returned" | .fellOff => "none" | .raised => "ethercat-error"
  | .blocked => "blocked" | .valueError => "value-error"

def respsOf (j : Json) : Option (List Resp) := do
  (← fArr j "responses").mapM fun r => do
    let a ← jArr r
    match a with
    | [s, e, st] => pure { state := ← jNat s, err := ← jBool e, status := ← jNat st : Resp }
    | _ => none

def showTrace (tr : List Ev) (o : Outcome) : String := joinSp (tr.map showEv) ++ " | " ++ showOut o

/-- a terminal whose script is used up reports INIT with the error flag from then on -/
def errTail : List Resp := List.replicate 3 { state := Ebv.Consts.ms_INIT, err := true, status := 0 }

/-- a bus case: the drivers of all terminals interleaved round-robin with the unanswered traffic
(index = number of terminals); printed is what each terminal saw and how its call ended -/
def busStep (terms : List Json) : Option String := do
  let devs ← terms.mapM fun t => do
    pure ({ target := ← fNat t "target", ds := .start, rs := (← respsOf t) ++ errTail } : Dev)
  let n := devs.length
  let rounds := (devs.map (·.rs.length)).foldl max 0
  let sched := (List.replicate rounds (n :: List.range n)).flatten
  let (evs, fin) := sysRun devs sched
  pure (" || ".intercalate ((List.range n).map fun i =>
    showTrace (proj i evs) ((fin[i]?.map (·.ds.outcome)).getD .blocked)))

def opOf (j : Json) : Option HOp := do
  let t ← fNat j "t"
  match ← fStr j "op" with
  | "to" => pure ⟨t, .toOp (← fNat j "target")⟩
  | "set" => pure ⟨t, .setState (← fNat j "state")⟩
  | "get" => pure ⟨t, .getState⟩
  | _ => none

/-- a history: uses of several `Terminal` objects one after the other, each terminal with its own script -/
def histStep (j : Json) : Option String := do
  let scripts ← (← fArr j "scripts").mapM fun s => respsOf (Json.mkObj [("responses", s)])
  let ops ← (← fArr j "ops").mapM opOf
  pure (" ; ".intercalate ((histRun scripts ops).map fun (t, tr, o) => s!"{t}: " ++ showTrace tr o))

def step (j : Json) : Option String :=
  match fArr j "terms" with
  | some terms => busStep terms
  | none => if (fArr j "ops").isSome then histStep j else do
    let target ← fNat j "target"
    let (tr, o) := toOperational target (← respsOf j)
    pure (showTrace tr o)

def main : IO Unit := driverMain step
