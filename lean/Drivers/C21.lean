import Ebv.Driver.Io
import Ebv.Model.FastGroup
import Ebv.Model.Dispatch
open Ebv Ebv.Io Ebv.FastGroup Lean

def parseWriters (j : Json) (k : String) : Option (List Writer) := do
  (← fArr j k).mapM fun w => do
    match ← jArr w with
    | [a, b, c, d] => pure { cmdPos := ← jNat a, wkcPos := ← jNat b, cmd := ← jNat c, expected := ← jNat d : Writer }
    | _ => none

def showObs : Dispatch.Obs → String
  | .ran e => s!"ran{if e then 1 else 0}" | .passive e => s!"passive{if e then 1 else 0}"
  | .passed => "passed" | .none => "-"

def parseEv (j : Json) : Option Dispatch.Ev := do
  match ← jArr j with
  | [k, i, o] =>
    let k ← jStr k
    if k == "d" then pure (.deliver (← jNat i) (← jBool o))
    else if k == "l" then pure (.lose (← jNat i))
    else if k == "i" then pure .inject
    else none
  | _ => none

def step (j : Json) : Option String := do
  let op ← fStr j "op"
  if op == "program" then
    let ws ← parseWriters j "writers"
    let (p, e) := program ws (← fNat j "size") (← fBytes j "pkt") (← fNat j "errors")
    pure s!"{hexOfBytes p} {e} wf={wf ws ((← fNat j "size") + Ebv.Consts.ETHERNET_HEADER)}"
  else if op == "sterile" then
    let starts ← (← fArr j "starts").mapM jNat
    pure (hexOfBytes (sterile starts (← fBytes j "frame")))
  else if op == "build" then
    let ds ← (← fArr j "dgrams").mapM fun d => do
      match ← jArr d with
      | [w, c, n, k] => pure ({ writer := ← jBool w, cmd := ← jNat c, len := ← jNat n, counter := ← jNat k } : Dgram)
      | _ => none
    let p := build ds
    let showW := fun (w : Writer) => s!"{w.cmdPos}:{w.wkcPos}:{w.cmd}:{w.expected}"
    let ws := match p.writers with
      | some ws => joinSp (ws.map showW)
      | none => "key-error"
    pure s!"size={p.size} starts=[{joinSp (p.starts.map toString)}] writers=[{ws}] declared=[{joinSp ((declared ds).map showW)}]"
  else if op == "hist" then
    let evs ← (← fArr j "events").mapM parseEv
    let (s, os) := Dispatch.runHist (← fBool j "reg") ⟨← fNat j "c", []⟩ evs
    let fl := s.flight.map fun f => s!"{f.idx}:{if f.enabled then 1 else 0}"
    pure s!"{s.c} [{joinSp fl}] {joinSp (os.map showObs)}"
  else none

def main : IO Unit := driverMain step
