import Ebv.Driver.Io
import Ebv.Model.Addr
open Ebv Ebv.Io Ebv.Addr Lean

def showEv : Ev → String
  | .rd p v => s!"R{p}={v}"
  | .probe a ans => s!"P{a}={if ans then 1 else 0}"
  | .wr p a => s!"W{p}={a}"
  | .ee p => s!"E{p}"
  | .ret a => s!"ret{a}"

def commaNat (l : List Nat) : String := ",".intercalate (l.map toString)

def step (j : Json) : Option String := do
  let bus ← (← fArr j "bus").mapM jNat
  let serials ← (← fArr j "serials").mapM jNat
  let draws ← (← fArr j "draws").mapM jNat
  let sched ← (← fArr j "sched").mapM jNat
  let tasks ← (← fArr j "tasks").mapM fun t => do
    match ← jArr t with
    | [k, p] =>
      let kind ← match ← jStr k with
        | "s" => some Kind.serial
        | "i" => some Kind.init
        | _ => none
      pure ({ kind := kind, pos := ← jNat p } : Task)
    | _ => none
  -- the configured terminal_addr_range of this master; none configured: the library's default (regenerated constants)
  let cfg0 : Cfg := { bus := bus, serials := serials, draws := draws, tasks := tasks }
  let cfg : Cfg ← match field j "range" with
    | none => pure cfg0
    | some r =>
      if r.isNull then pure cfg0 else
      match ← jArr r with
      | [lo, hi] => pure { cfg0 with lo := ← jNat lo, hi := ← jNat hi }
      | _ => none
  let st := run cfg sched
  let ids := List.range tasks.length
  let serialDone := ids.all fun i => (taskOf cfg i).kind != .serial || st.pc i == .done
  -- (a run stopped because the PRNG script ran out in an `initialize` task may have completed its scan before; if it ran out
  -- before the scan's tasks were started the scan never completes)
  let m := if serialDone && !(initSt cfg).starved then
      ",".intercalate ((st.map.mergeSort (fun a b => a.1 ≤ b.1)).map fun e => s!"{e.1}:{e.2}")
    else "-"
  let status := if st.starved then "starved" else if st.queue.isEmpty then "finished" else "pending"
  pure (joinSp (st.log.map showEv) ++ " | " ++ commaNat st.bus ++ " | " ++ commaNat st.returned ++ " | " ++ m
        ++ " | " ++ commaNat (st.used.mergeSort (· ≤ ·)) ++ " | " ++ status)

def main : IO Unit := driverMain step
