import Ebv.Driver.Io
import Ebv.Model.Serial
open Ebv Ebv.Io Ebv.Serial Lean

def b01 (b : Bool) : String := if b then "1" else "0"

def showOpt : Option Bytes → String
  | none => "-"
  | some c => "x" ++ hexOfBytes c

def showObs (ob : Obs) : String :=
  joinSp [b01 ob.out.tr ++ b01 ob.out.ra ++ b01 ob.out.ir ++ b01 ob.inp.ta ++ b01 ob.inp.rr ++ b01 ob.inp.ia,
          hexOfBytes ob.out.outStr, "d" ++ hexOfBytes ob.delivered, "r" ++ showOpt ob.readChunk,
          "a" ++ showOpt ob.accepted, "n" ++ showOpt ob.announced, "p" ++ showOpt ob.pending, toString ob.unread]

def step (j : Json) : Option String := do
  let ta0 ← fBool j "ta0"
  let rr0 ← fBool j "rr0"
  let in0 ← fBytes j "in0"
  let initWait ← fNat j "initWait"
  let txDelays ← (← fArr j "txDelays").mapM jNat
  let rxPlan ← (← fArr j "rxPlan").mapM fun e => do
    match ← jArr e with
    | [d, c] => pure (← jNat d, ← jBytes c)
    | _ => none
  let writes ← (← fArr j "writes").mapM jBytes
  let drain ← fNat j "drain"
  let s0 := init ta0 rr0 in0 initWait txDelays rxPlan
  let s1 := (final s0 writes).drain
  pure (" | ".intercalate ((trace s0 writes ++ trace s1 (idle drain)).map showObs))

def main : IO Unit := driverMain step
