import Ebv.Driver.Io
import Ebv.Model.SdoSystem
import Ebv.Model.SdoConfig
open Ebv Ebv.Io Ebv.Sdo Ebv.SdoServer Ebv.SdoSystem Lean

def showEv : Ev → String
  | .st0 f => if f then "s8" else "s0"
  | .st1 r => if r then "p8" else "p0"
  | .send m => "w" ++ hexOfBytes m
  | .kick => "k"
  | .recv => "r"

def showOut : R (List UInt8) → String
  | .ok v => "ok:" ++ hexOfBytes v
  | .err .blocked => "blocked"
  | .err .ethercat => "ethercat-error"
  | .err .valueError => "value-error"
  | .err .structError => "struct-error"

def showRun (r : List Ev × R (List UInt8)) : String := joinSp (r.1.map showEv) ++ " | " ++ showOut r.2

def showObjs (os : List Obj) : String :=
  ",".intercalate (os.map fun o => s!"{o.index}:{o.sub}:{if o.ca then 1 else 0}:{o.cap}:{hexOfBytes o.val}")

def showResps (rss : List (List (List UInt8))) : String :=
  joinSp (rss.map fun rs => if rs.isEmpty then "-" else "+".intercalate (rs.map hexOfBytes))

def getParams (j : Json) : Option Params := do
  let sub := match field j "sub" with
    | some (.num n) => some n.mantissa.toNat
    | _ => none
  match fBytes j "sm" with
  | some sm => Ebv.SdoConfig.configure sm (← fNat j "index") sub     -- sizes as parse_sync_managers finds them in the table
  | none => pure ⟨← fNat j "out", ← fNat j "in", ← fNat j "index", sub⟩

def getKind (j : Json) : Option Kind := do
  match ← fStr j "kind" with
  | "read" => pure .read
  | "write" => pure (.write (← fBytes j "value"))
  | _ => none

/-- rounds until the mails no longer change (bounded): `mailsAfter c n` for the first `n` that is a fixpoint -/
def settle (c : Setup) : Nat → List Mail → List Mail
  | 0, mails => mails
  | fuel + 1, mails =>
    let next := round c mails
    if next == mails then mails else settle c fuel next

def step (j : Json) : Option String := do
  match ← fStr j "mode" with
  | "script" =>
    let p ← getParams j
    let k ← getKind j
    let fulls ← (← fArr j "fulls").mapM jBool
    let mails ← (← fArr j "mails").mapM fun m => do
      match ← jArr m with
      | [d, h] => pure (toMail p.inSz (← jNat d) (← jBytes h))
      | _ => none
    pure (showRun (run p k (← fNat j "cnt") fulls mails))
  | "server" =>
    let objs ← (← fArr j "objs").mapM fun o => do
      match ← jArr o with
      | [i, s, ca, cap, v] => pure (⟨← jNat i, ← jNat s, ← jBool ca, ← jNat cap, ← jBytes v⟩ : Obj)
      | _ => none
    let reqs ← (← fArr j "reqs").mapM jBytes
    let (s, rss) := serveAll (init (← fNat j "out") (← fNat j "in") objs) reqs
    pure (showResps rss ++ " | " ++ showObjs s.objs)
  | "sys" =>
    let p ← getParams j
    let k ← getKind j
    let sched ← (← fArr j "sched").mapM fun s => do
      pure (⟨← fBool s "full", ← (← fArr s "pre").mapM jBytes, ← fNat s "delay"⟩ : Slot)
    let stored ← match k with
      | .read => fBytes j "value"
      | .write _ => fBytes j "init"
    let c : Setup := ⟨p, k, ← fNat j "cnt", sched, [⟨p.index, subOr1 p, p.sub.isNone, ← fNat j "cap", stored⟩]⟩
    let r := resultOf c (settle c 4096 (mailsAfter c 0))
    pure (showRun (r.trace, r.outcome) ++ " | obj:" ++ hexOfBytes ((target c r.objs).getD []))
  | _ => none

def main : IO Unit := driverMain step
