import Ebv.Driver.Io
import Ebv.Model.SdoSystem
import Ebv.Model.SdoConfig
import Ebv.Model.SdoHistory
open Ebv Ebv.Io Ebv.Sdo Ebv.SdoServer Ebv.SdoSystem Ebv.SdoHistory Lean

def showEv : Ev → String
  | .st0 f => if f then "s8" else "s0"
  | .st1 r => if r then "p8" else "p0"
  | .send m => "w" ++ hexOfBytes m
  | .kick => "k"
  | .recv => "r"

def showOut : R (List UInt8) → String
  | .ok v => "ok:" ++ hexOfBytes v
  | .err .blocked => "blocked"
  | .err .ethercat => "ethercat-error"
  | .err .valueError => "value-error"
  | .err .structError => "struct-error"

def showRun (r : List Ev × R (List UInt8)) : String := joinSp (r.1.map showEv) ++ " | " ++ showOut r.2

def showObjs (os : List Obj) : String :=
  ",".intercalate (os.map fun o => s!"{o.index}:{o.sub}:{if o.ca then 1 else 0}:{o.cap}:{hexOfBytes o.val}")

def showResps (rss : List (List (List UInt8))) : String :=
  joinSp (rss.map fun rs => if rs.isEmpty then "-" else "+".intercalate (rs.map hexOfBytes))

def getParams (j : Json) : Option Params := do
  let sub := match field j "sub" with
    | some (.num n) => some n.mantissa.toNat
    | _ => none
  match fBytes j "sm" with
  | some sm => Ebv.SdoConfig.configure sm (← fNat j "index") sub     -- sizes as parse_sync_managers finds them in the table
  | none => pure ⟨← fNat j "out", ← fNat j "in", ← fNat j "index", sub⟩

def getKind (j : Json) : Option Kind := do
  match ← fStr j "kind" with
  | "read" => pure .read
  | "write" => pure (.write (← fBytes j "value"))
  | _ => none

def getSched (j : Json) : Option (List Slot) := do
  (← fArr j "sched").mapM fun s => do
    pure (⟨← fBool s "full", ← (← fArr s "pre").mapM jBytes, ← fNat s "delay"⟩ : Slot)

def getObjs (os : List Json) : Option (List Obj) :=
  os.mapM fun o => do
    match ← jArr o with
    | [i, s, ca, cap, v] => pure (⟨← jNat i, ← jNat s, ← jBool ca, ← jNat cap, ← jBytes v⟩ : Obj)
    | _ => none

def getSub (j : Json) : Option Nat :=
  match field j "sub" with
  | some (.num n) => some n.mantissa.toNat
  | _ => none

/-- one operation of a history -/
def getOp (j : Json) : Option Op := do
  let t ← fNat j "t"
  match ← fStr j "op" with
  | "config" => pure (.config t (← fBytes j "sm"))
  | "set" => pure (.set t (← fNat j "index") (← fNat j "sub") (← fBool j "ca") (← fBytes j "value"))
  | "xfer" =>
    let cut ← match field j "cut" with
      | some (.arr a) => match a.toList with
        | [a, b] => do pure (some (⟨← jNat a, ← jNat b⟩ : Cut))
        | _ => none
      | _ => pure none
    pure (.xfer t (← fNat j "index") (getSub j) (← getKind j) (← getSched j) cut)
  | _ => none

def showOutH : Out → String
  | .cfg none => "cfg:none"
  | .cfg (some m) => s!"cfg:{m.outOff}:{m.outSz}:{m.inOff}:{m.inSz}"
  | .set => "set"
  | .nothing => "nothing"
  | .xfer tr o obj =>
    joinSp (tr.map showEv) ++ " | " ++ (match o with | none => "cancelled" | some r => showOut r) ++ " | obj:" ++
      (match obj with | none => "-" | some v => hexOfBytes v)

def step (j : Json) : Option String := do
  match ← fStr j "mode" with
  | "script" =>
    let p ← getParams j
    let k ← getKind j
    let fulls ← (← fArr j "fulls").mapM jBool
    let mails ← (← fArr j "mails").mapM fun m => do
      match ← jArr m with
      | [d, h] => pure (toMail p.inSz (← jNat d) (← jBytes h))
      | _ => none
    pure (showRun (run p k (← fNat j "cnt") fulls mails))
  | "server" =>
    let objs ← (← fArr j "objs").mapM fun o => do
      match ← jArr o with
      | [i, s, ca, cap, v] => pure (⟨← jNat i, ← jNat s, ← jBool ca, ← jNat cap, ← jBytes v⟩ : Obj)
      | _ => none
    let reqs ← (← fArr j "reqs").mapM jBytes
    let (s, rss) := serveAll (init (← fNat j "out") (← fNat j "in") objs) reqs
    pure (showResps rss ++ " | " ++ showObjs s.objs)
  | "sys" =>
    let p ← getParams j
    let k ← getKind j
    let sched ← getSched j
    let stored ← match k with
      | .read => fBytes j "value"
      | .write _ => fBytes j "init"
    let c : Setup := ⟨p, k, ← fNat j "cnt", sched, [⟨p.index, subOr1 p, p.sub.isNone, ← fNat j "cap", stored⟩], 1, .idle⟩
    let r := final c
    pure (showRun (r.trace, r.outcome) ++ " | obj:" ++ hexOfBytes ((target c r.objs).getD []))
  | "hist" =>
    let cnts ← (← fArr j "cnt").mapM jNat
    let objs ← (← fArr j "objs").mapM fun os => do getObjs (← jArr os)
    let w : List SdoHistory.Term := (cnts.zip objs).map fun (c, os) => ⟨none, c, os, 1, .idle⟩
    let ops ← (← fArr j "steps").mapM getOp
    pure (" || ".intercalate ((runOps w ops).2.map showOutH))
  | _ => none

def main : IO Unit := driverMain step
