import Ebv.Driver.Io
import Ebv.Model.SendLoop
/-! Line protocol for C12.  In: `{"events": [ev, …]}` with
`["s", r, len]`, `["c", r]`, `["q"]`, `["l", f]`, `["d", f, segs]`, `["u", f, segs]`;
`segs` describes the response bytes as a list of `["h", hex]` (literal) and
`["a", n, b0, step]` (n bytes b0, b0+step, … mod 256).
Out: `frames | completion log per quiesce | final outcomes`. -/
open Ebv Ebv.Io Ebv.SendLoop Lean

def expandSeg (j : Json) : Option (List UInt8) := do
  let a ← jArr j
  match a with
  | [k, x] => if (← jStr k) == "h" then jBytes x else none
  | [k, n, b0, st] =>
    if (← jStr k) == "a" then
      let n ← jNat n
      let b0 ← jNat b0
      let st ← jNat st
      pure ((List.range n).map fun i => UInt8.ofNat ((b0 + i * st) % 256))
    else none
  | _ => none

def expandSegs (j : Json) : Option (List UInt8) := do
  let segs ← jArr j
  let parts ← segs.mapM expandSeg
  pure parts.flatten

def parseEv (j : Json) : Option Ev := do
  let a ← jArr j
  match a with
  | [k] => if (← jStr k) == "q" then pure .quiesce else none
  | [k, x] =>
    let k ← jStr k
    if k == "c" then pure (.cancel (← jNat x))
    else if k == "l" then pure (.lose (← jNat x))
    else none
  | [k, x, y] =>
    let k ← jStr k
    if k == "s" then pure (.submit (← jNat x) (← jNat y))
    else if k == "d" then pure (.deliver (← jNat x) (← expandSegs y))
    else if k == "u" then pure (.duplicate (← jNat x) (← expandSegs y))
    else none
  | _ => none

def showFut : Option Fut → String
  | none => "unknown"
  | some .pending => "pending"
  | some (.result bs) => "result:" ++ hexOfBytes bs
  | some .ecError => "ethercat-error"
  | some .overflow => "overflow"
  | some .structError => "other:error"
  | some .cancelled => "cancelled"

def kindFut : Option Fut → String
  | some (.result _) => "result"
  | x => showFut x

def isPending (x : Option Fut) : Bool := x == some .pending

def showFrame (fr : Frame) : String :=
  s!"F{fr.id}[" ++ ",".intercalate (fr.dgs.map fun g => s!"{g.rid}@{g.start}-{g.stop}") ++ "]"

/-- run the events; after every quiesce note how many frames are on the wire and which requests
completed since the previous quiesce (a caller sees its cancellation when the loop runs again) -/
def runLog : Nat → St → St → List Ev → List String → St × List String
  | _, _, s, [], log => (s, log.reverse)
  | i, sq, s, e :: es, log =>
    let s' := step s e
    match e with
    | .quiesce =>
      let newly := s'.subs.filterMap fun (r, _) =>
        if !isPending (s'.futs.get r) && (isPending (sq.futs.get r) || (sq.futs.get r).isNone) then
          some s!"{r}={kindFut (s'.futs.get r)}" else none
      runLog (i + 1) s' s' es ((s!"q{i}:{s'.sent.length}:" ++ ",".intercalate newly) :: log)
    | _ => runLog (i + 1) sq s' es log

def stepLine (j : Json) : Option String := do
  let evs ← (← fArr j "events").mapM parseEv
  let (s, log) := runLog 0 init init evs []
  let frames := joinSp (s.sent.map showFrame)
  let outs := joinSp (s.subs.map fun (r, _) => s!"{r}={showFut (s.futs.get r)}")
  pure (frames ++ " | " ++ joinSp log ++ " | " ++ outs)

def main : IO Unit := driverMain stepLine
