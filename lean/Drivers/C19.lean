import Ebv.Driver.Io
import Ebv.Model.ProcVar
open Ebv Ebv.Io Ebv.ProcVar Ebv.Bytes Lean

def fmtOfStr : String → Option Fmt
  | "B" => some .B | "H" => some .H | "I" => some .I | "Q" => some .Q
  | "b" => some .b | "h" => some .h | "i" => some .i | "q" => some .q
  | _ => none

/-- a struct letter (string) or a bit number (integer) -/
def sizeOf (j : Json) : Option Size :=
  match jStr j with
  | some s => (fmtOfStr s).map .fmt
  | none => (jNat j).map .bit

def smOf (n : Nat) : Option Sm :=
  if n == Ebv.Consts.sm_IN then some .inp else if n == Ebv.Consts.sm_OUT then some .out else none

def pdoOf (j : Json) : Option Pdo := do
  match ← jArr j with
  | [i, s, sm, off, size] => pure ⟨← jNat i, ← jNat s, ← smOf (← jNat sm), ← jNat off, ← sizeOf size⟩
  | _ => none

def descOf (j : Json) : Option Desc := do
  match ← jArr j with
  | [k, a, b, c] =>
    match ← jStr k with
    | "process" => pure (.process (← jNat a) (← jNat b) (if c.isNull then none else sizeOf c))
    | "packet" => pure (.packet (← smOf (← jNat a)) (← jNat b) (← sizeOf c))
    | _ => none
  | _ => none

def optNat (j : Json) (k : String) : Option Nat := do
  let v ← field j k
  v.getNat?.toOption

def varOf (j : Json) : Option (Option Linked) := do
  let pdos ← (← fArr j "pdos").mapM pdoOf
  let off ← match ← fArr j "struct" with
    | [a, b, c] => pure (StructOff.mk (← jNat a) (← jNat b) (← jNat c))
    | _ => none
  let d ← descOf (← field j "desc")
  let obj ← fNat j "obj"
  let dev ← fNat j "dev"
  pure ((resolve pdos off d).map fun v => ⟨v, ⟨optNat j "assign_in", optNat j "assign_out"⟩, obj, dev⟩)

def opOf (j : Json) : Option Op := do
  match ← fStr j "op" with
  | "get" => pure (.get (← fNat j "dv") (← fNat j "src"))
  | "set" =>
    let x ← fInt j "x"
    let src ← match ← fStr j "kind" with
      | "var" => pure (Src.var x.toNat)
      | "dv" => pure (Src.dv x.toNat)
      | "const" => pure (Src.const x)
      | _ => none
    pure (.set (← fNat j "dst") src)
  | _ => none

def commaInts (xs : List Int) : String := ",".intercalate (xs.map toString)
def commaNats (xs : List Nat) : String := ",".intercalate (xs.map toString)

/-- Python `get` of every linked variable through the (cached) accessors, in index order; `none` if one raises -/
def readAllC (vars : List Linked) (data : List UInt8) (caches : List PvCache) : Option (List Int) :=
  (readEach vars data (List.range vars.length) caches []).1

def showReads : Option (List Int) → String
  | some vs => commaInts vs
  | none => "-"

/-- earlier starts (`key` = "prior": cycles of a slow group — an earlier group of some of the devices, or the same group
under the configuration of that time; "fprior": Python reads in the fast group): layout (`assign` per variable), frame,
statements; all DeviceVars zero -/
def earlierOf (j : Json) (key : String) (reads : Bool) (vars : List Linked) (ndv : Nat) (generated : Bool := false) : Option (List Earlier) :=
  match field j key with
  | none => some []
  | some p => do
    if p.isNull then pure [] else
    (← jArr p).mapM fun e => do
      let assigns ← (← fArr e "assign").mapM fun a => do
        if a.isNull then pure (Assign.mk none none) else
        match ← jArr a with
        | [x, y] => pure (Assign.mk x.getNat?.toOption y.getNat?.toOption)
        | _ => none
      let ops ← (← fArr e "ops").mapM opOf
      let frame ← fBytes e "frame"
      let vars' := (vars.zip assigns).map fun (l, a) => { l with assign := a }
      pure { vars := vars', st := ⟨frame, List.replicate ndv 0⟩, ops := ops, reads := reads, generated := generated }

def step (j : Json) : Option String := do
  let data ← fBytes j "frame"
  let hdr ← fBytes j "hdr"
  let vars? ← (← fArr j "vars").mapM varOf
  let ops ← (← fArr j "ops").mapM opOf
  let dvs ← (← fArr j "dvs").mapM fun d => do
    match ← jArr d with
    | [f, v] => pure (← fmtOfStr (← jStr f), ← jInt v)
    | _ => none
  match vars?.mapM id with
  | none => pure "key-error"
  | some vars =>
    match vars.mapM (fun l => start l.assign l.var), vars.mapM (fun l => progAddr l.assign l.var) with
    | some ss, some as =>
      let fresh := List.replicate vars.length PvCache.empty
      match earlierOf j "prior" false vars dvs.length, earlierOf j "fprior" true vars dvs.length,
            earlierOf j "gprior" false vars dvs.length true with
      | none, _, _ | _, none, _ | _, _, none => pure "prior-error"
      | some hist, some fhist0, some ghist =>
        -- the fast group's objects: earlier program generations, then the Python reads of the earlier starts
        let fhist := ghist ++ fhist0
        let caches := historyCaches fresh hist
        -- the Python path as the code runs it (accessors cached on the PacketVar objects)
        let py := pyRunC vars ⟨⟨data, dvs.map (·.2)⟩, caches⟩ ops
        let pr := progRun vars ⟨hdr ++ data, dvs.map fun (f, v) => (f, encLE f.width (ofSigned f.width v))⟩ ops
        match pr with
        | none => pure "bad-index"
        | some p =>
          let pyS := match py with
            | .ok s => s!"py={hexOfBytes s.st.data} pyv={commaInts s.st.dvs} reads={showReads (readAllC vars s.st.data s.caches)}"
            | .error (.structError, _) => "py=struct-error pyv=- reads=-"
            | .error (.assertion, _) => "py=assertion-error pyv=- reads=-"
            | .error (.badIndex, _) => "py=bad-index pyv=- reads=-"
          -- what Python's get sees in the frame that came back from the program (fast_update; the fast group has objects of its own)
          let back := readAllC vars (p.frame.drop hdr.length) (historyCaches fresh fhist)
          pure (s!"starts={commaNats ss} addrs={commaNats as} " ++ pyS ++
                s!" prog={hexOfBytes p.frame} progv={commaInts (p.dvs.map fun (f, mem) => pyGet f mem 0)} reads={showReads back}")
    | _, _ => pure "key-error"

def main : IO Unit := driverMain step
