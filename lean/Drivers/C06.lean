import Ebv.Driver.Io
import Ebv.Model.Xadd
open Ebv Ebv.Io Ebv.Xadd Lean

def step (j : Json) : Option String := do
  let bits ← fNat j "bits"
  let sched ← (← fArr j "sched").mapM jNat
  let cell ← fNat j "cell"
  let ts ← (← fArr j "threads").mapM fun t => do
    match ← jArr t with
    | [p, a] => pure (⟨← jNat p, ← jNat a, false⟩ : Thread)
    | _ => none
  let (c, ts') := runSched (2 ^ bits) sched cell ts
  pure s!"{c} {joinSp (ts'.map fun t => if t.done then "1" else "0")}"

def main : IO Unit := driverMain step
