import Ebv.Driver.Io
import Ebv.Model.Coro
open Ebv Ebv.Io Ebv.Coro Lean

def showAct : Act → String
  | .slot t j true => s!"slot{t}[{j}]=set"
  | .slot t j false => s!"slot{t}[{j}]=clear"
  | .fmmuOn t j => s!"fmmu{t}[{j}]=on"
  | .fmmuOff t j => s!"fmmu{t}[{j}]=off"
  | .getState t => s!"gs{t}"
  | .setState t v => s!"st{t}={v}"
  | .send => "send" | .recv => "recv" | .sleep => "sleep"
  | .load => "load" | .lookup i => s!"lookup{i}" | .progSet i => s!"prog[{i}]=set"
  | .closeFd => "close" | .groupSet i => s!"group[{i}]=set"
  | .progDel i => s!"prog[{i}]=del" | .groupDel i => s!"group[{i}]=del"
  | .pidfdOpen => "pidfd" | .waitChild => "wait" | .childSeen => "seen"
  | .setRunning b => if b then "running=1" else "running=0"
  | .removeReader => "unwait"

def showOut : Outcome → String
  | .normal => "returned" | .returned => "returned" | .pending => "pending"
  | .raised .cancelled => "cancelled" | .raised (.error t) => s!"error{t}"

/-- terminal as the harness describes it: [pos, rw, nfmmu, hasOut, hasIn, start] -/
def term (j : Json) : Option Coro.Term := do
  match ← jArr j with
  | [p, rw, nf, o, i, s] =>
    let (so, si) ← slotsOf (← jNat nf) (← jBool o) (← jBool i)
    pure { pos := ← jNat p, rw := ← jBool rw, out := so, inp := si, start := ← jNat s : Coro.Term }
  | _ => none

def step (j : Json) : Option String := do
  let kind ← fStr j "kind"
  let k : Option Nat := match fNat j "k" with
    | some v => some v
    | none => none
  let n ← fNat j "cycles"
  let showRes := fun (r : Res Act) => joinSp (r.trace.map showAct) ++ " | " ++ showOut r.out ++ " | " ++ toString r.idx
  -- earlier runs of the same group object, each cancelled at that await
  let prev : List (Option Nat) := match fArr j "prev" with
    | some l => l.filterMap fun x => (jNat x).map some
    | none => []
  let mk ← match kind with
    | "slow" => pure (some fun ts => slowRun ts n)
    | "fast" => do
      let busy ← (← fArr j "busy").mapM jNat
      let index ← fNat j "index"
      pure (some fun ts => fastRun busy index ts n)
    | "proc" => pure none
    | _ => none
  match mk with
  | some mk =>
    let ts ← (← fArr j "terms").mapM term
    pure (" || ".intercalate ((runsOf mk (prev ++ [k]) ts).map showRes))
  | none => pure (showRes (run k (procRun (← fBool j "selfExit") n) 0))

def main : IO Unit := driverMain step
