import Ebv.Driver.Io
import Ebv.Model.Coro
open Ebv Ebv.Io Ebv.Coro Lean

def showAct : Act → String
  | .slot t j true => s!"slot{t}[{j}]=set"
  | .slot t j false => s!"slot{t}[{j}]=clear"
  | .fmmuOn t j => s!"fmmu{t}[{j}]=on"
  | .fmmuOff t j => s!"fmmu{t}[{j}]=off"
  | .getState t => s!"gs{t}"
  | .setState t v => s!"st{t}={v}"
  | .send => "send" | .recv => "recv" | .sleep => "sleep"
  | .load => "load" | .lookup i => s!"lookup{i}" | .progSet i => s!"prog[{i}]=set"
  | .closeFd => "close" | .groupSet i => s!"group[{i}]=set"
  | .progDel i => s!"prog[{i}]=del" | .groupDel i => s!"group[{i}]=del"
  | .pidfdOpen => "pidfd" | .waitChild => "wait" | .childSeen => "seen"
  | .setRunning b => if b then "running=1" else "running=0"
  | .removeReader => "unwait"

def showOut : Outcome → String
  | .normal => "returned" | .returned => "returned" | .pending => "pending"
  | .raised .cancelled => "cancelled" | .raised (.error t) => s!"error{t}"

/-- terminal as the harness describes it: [pos, rw, nfmmu, hasOut, hasIn, start] -/
def term (j : Json) : Option Coro.Term := do
  match ← jArr j with
  | [p, rw, nf, o, i, s] =>
    let (so, si) ← slotsOf (← jNat nf) (← jBool o) (← jBool i)
    pure { pos := ← jNat p, rw := ← jBool rw, out := so, inp := si, start := ← jNat s : Coro.Term }
  | _ => none

def step (j : Json) : Option String := do
  let kind ← fStr j "kind"
  let k : Option Nat := match fNat j "k" with
    | some v => some v
    | none => none
  let n ← fNat j "cycles"
  let prog ← match kind with
    | "slow" => do pure (slowRun (← (← fArr j "terms").mapM term) n)
    | "fast" => do
      pure (fastRun (← (← fArr j "busy").mapM jNat) (← fNat j "index") (← (← fArr j "terms").mapM term) n)
    | "proc" => do pure (procRun (← fBool j "selfExit") n)
    | _ => none
  let r := run k prog 0
  pure (joinSp (r.trace.map showAct) ++ " | " ++ showOut r.out ++ " | " ++ toString r.idx)

def main : IO Unit := driverMain step
