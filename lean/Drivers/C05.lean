import Ebv.Driver.Io
import Ebv.Model.MiniVerifier
open Ebv Ebv.Io Ebv.Ebpf Ebv.MiniV Lean

def parseInsn (j : Json) : Option Insn := do
  match ← jArr j with
  | [a, b, c, d, e] => pure ⟨← jNat a, ← jNat b, ← jNat c, ← jInt d, ← jInt e⟩
  | _ => none

def parseKind : String → Option MapKind
  | "array" => some .array | "hash" => some .hash | "prog_array" => some .progArray | _ => none

def parseMap (j : Json) : Option (Int × MapInfo) := do
  match ← jArr j with
  | [fd, k, ks, vs] => pure (← jInt fd, ⟨← parseKind (← jStr k), ← jNat ks, ← jNat vs⟩)
  | _ => none

def showR : Except String Unit → String
  | .ok _ => "accept"
  | .error e => "reject:" ++ e

/-- {"insns":[[op,dst,src,off,imm],…],"maps":[[fd,"array"|"hash"|"prog_array",key_size,value_size],…]}
 →  `<strict> ; <privileged>` each `accept` or `reject:<rule>:<detail>@<pc>`; the verdict of `accepts`/`acceptsWith` is
 cross-checked against `check` (they must agree) -/
def step (j : Json) : Option String := do
  let prog ← (← fArr j "insns").mapM parseInsn
  let geo ← (← fArr j "maps").mapM parseMap
  let s := check {} prog geo
  let p := check { allowUninitStack := true } prog geo
  let consistent := (accepts prog geo == s.toBool) && (acceptsWith { allowUninitStack := true } prog geo == p.toBool)
  if consistent then pure (showR s ++ " ; " ++ showR p) else pure "inconsistent"

def main : IO Unit := driverMain step
