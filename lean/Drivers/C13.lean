import Ebv.Driver.Io
import Ebv.Model.Roundtrip
open Ebv Ebv.Io Ebv.Roundtrip Lean

def codeOf : String → Option Code
  | "b" => some .b | "B" => some .B | "h" => some .h | "H" => some .H
  | "i" => some .i | "I" => some .I | "q" => some .q | "Q" => some .Q
  | "x" => some .x | "s" => some .s
  | _ => none

/-- an item is `[count, code, explicit]` (the third entry only matters for rendering the Python string) -/
def itemOf (j : Json) : Option Item := do
  match (← jArr j) with
  | c :: k :: _ => pure { count := ← jNat c, code := ← codeOf (← jStr k) }
  | _ => none

def argOf (j : Json) : Option Arg :=
  match fArr j "f" with
  | some items => do pure (.fmt (← items.mapM itemOf))
  | none =>
    match fInt j "i" with
    | some v => some (.val (.int v))
    | none => do pure (.val (.bytes (← fBytes j "b")))

def dataOf (j : Json) : Option RawData :=
  match field j "data" with
  | none | some .null => some .none
  | some d =>
    match fInt d "n" with
    | some n => some (.count n)
    | none => do pure (.bytes (← fBytes d "b"))

def showVal : Val → String
  | .int v => s!"i{v}"
  | .bytes bs => "b" ++ hexOfBytes bs

def showVals (vs : List Val) : String := ",".intercalate (vs.map showVal)

def showRes : Option Result → String
  | none => "struct-error"
  | some (.tuple vs) => "t:" ++ showVals vs
  | some (.tupleRaw vs tail) => "t:" ++ showVals vs ++ ";raw=" ++ hexOfBytes tail
  | some (.raw bs) => "raw:" ++ hexOfBytes bs

def respOf (j : Json) : Option (List UInt8 → List UInt8) :=
  match fStr j "resp" with
  | some h => do let r ← bytesOfHex h; pure fun _ => r
  | none => some id                       -- the bus echoes the payload

def step1 (j : Json) : Option String := do
  let args ← (← fArr j "args").mapM argOf
  let data ← dataOf j
  match encode args data with
  | none => pure "struct-error"
  | some out => pure ("out=" ++ hexOfBytes out ++ " | " ++ showRes (decode args data ((← respOf j) out)))

def showWire : Wire → String
  | .structError => "struct-error"
  | .overflow => "overflow"
  | .sent out res => "out=" ++ hexOfBytes out ++ " | " ++ showRes res

/-- a wire case is a batch of requests submitted together through the real send loop -/
def step (j : Json) : Option String :=
  match fArr j "batch" with
  | none => step1 j
  | some reqs => do
    let rs ← reqs.mapM fun r => do
      let args ← (← fArr r "args").mapM argOf
      pure (args, ← dataOf r, ← respOf r)
    pure (" || ".intercalate ((wireAll rs).map showWire))

def main : IO Unit := driverMain step
