import Ebv.Driver.Io
import Ebv.Model.Parallel
import Ebv.Model.FmmuLock
open Ebv Ebv.Io Ebv.Parallel Lean

def optS : Option Nat → String
  | some n => toString n
  | none => "-"

def status (p : Proc) : String :=
  match p.pc with
  | .done => "done" | .failed => "failed" | .running => "running" | _ => "active"

/-- the addresses `get_fmmu_addr` returned (count : first : last : sum), observable once the body has made its calls -/
def showGiven (p : Proc) : String :=
  if p.pc == .running then
    let g := givenAddrs p
    s!"{g.length}:{g.headD 0}:{g.getLastD 0}:{g.foldl (· + ·) 0}"
  else "-"

/-- the process number is observable on the real object once `FMMULock(...)` has returned -/
def showProc (p : Proc) : String :=
  let no := if p.trace.contains "fm_write" || p.trace.contains "fm_unlock" then p.fmNo else 0
  joinSp p.trace ++ s!" # {status p} et={p.et} no={no} progs={optS p.progs} ga={showGiven p}"

def showDir : Option (List (Nat × Nat)) → String
  | none => "-"
  | some ms => "[" ++ ",".intercalate (ms.map fun m => s!"{m.1}:{m.2}") ++ "]"

def showFm : Option (List Nat) → String
  | none => "-"
  | some f => "x" ++ hexOfBytes (f.map UInt8.ofNat)

def showSys (s : Sys) : String :=
  s!"dir={showDir s.lockdir} pin={optS s.pin} att={optS s.attached} mbx={s.mbx} fm={showFm s.fm} lock={optS s.fmLock}"

def cfgOf (j : Json) : Option Cfg := do
  let et ← (← fArr j "et").mapM jNat
  let fm ← (← fArr j "fm").mapM jNat
  pure { etDraws := et, fmDraws := fm, nAddr := ← fNat j "naddr", attachFails := ← fBool j "attach_fails" }

def fm0Of (j : Json) : Option (Option (List Nat)) :=
  match field j "fm0" with
  | some (.str h) => do pure (some ((← bytesOfHex h).map UInt8.toNat))
  | _ => some none

def step1 (j : Json) : Option String := do
  let cfgs ← (← fArr j "cfgs").mapM cfgOf
  let sched ← (← fArr j "sched").mapM jNat
  let fm0 ← fm0Of j
  let s0 := init cfgs fm0
  let s := run s0 sched
  let v (bad : Sys → Bool) := optS (firstBad bad s0 sched 0)
  let viol := s!"ed={v (fun s => !ethertypesDistinctB s)} si={v (fun s => !singleInstallerB s)} " ++
    s!"iw={v (fun s => !installedB s)} fw={v (fun s => !windowsDisjointB s)}"
  pure (" ; ".intercalate (s.procs.map showProc) ++ " ;; " ++ showSys s ++ " ;; " ++ viol ++ s!" quiet={Quiet s0 sched}")

/-! histories of `FMMULock` objects used directly (`Ebv.FmmuLock`): cases with a `scripts` field -/

def opOf (j : Json) : Option FmmuLock.Op := do
  match ← jArr j with
  | [n, a] =>
    match ← jStr n with
    | "new" => pure (.new (← (← jArr a).mapM jNat))
    | "addr" => pure (.addr (← jNat a))
    | "rm" => pure (.rm (← jNat a))
    | _ => none
  | _ => none

def evOf (j : Json) : Option FmmuLock.Ev := do
  let n ← jInt j
  pure (if n < 0 then .kill (-n - 1).toNat else .step n.toNat)

def showObj (s : FmmuLock.Sys) (g : Nat) : String :=
  let o := FmmuLock.getO s g
  let ga := FmmuLock.givenAddrs o
  s!"{o.no}:{ga.length}:{ga.getLastD 0}:{ga.foldl (· + ·) 0}:{if o.run then "R" else "-"}"

def showHProc (s : FmmuLock.Sys) (p : FmmuLock.Proc) : String :=
  let st := if p.pc == .dead then "dead" else if p.pc == .idle && p.script.isEmpty then "done" else "active"
  joinSp p.trace ++ s!" # {st} objs=[" ++ ",".intercalate (p.mine.map (showObj s)) ++ "]"

def stepHist (j : Json) : Option String := do
  let scripts ← (← fArr j "scripts").mapM fun sc => do (← jArr sc).mapM opOf
  let evs ← (← fArr j "sched").mapM evOf
  let fm0 ← fm0Of j
  let s0 := FmmuLock.init scripts fm0
  let s := FmmuLock.run s0 evs
  let fw := optS (FmmuLock.firstBad (fun s => !FmmuLock.windowsDisjointB s) s0 evs 0)
  pure (" ; ".intercalate (s.procs.map (showHProc s)) ++ s!" ;; fm={showFm s.fm} lock={optS s.fmLock} ;; fw={fw}")

def stepAny (j : Json) : Option String :=
  match field j "scripts" with
  | some _ => stepHist j
  | none => step1 j

def main : IO Unit := driverMain stepAny
