import Ebv.Driver.Io
import Ebv.Model.Collect
open Ebv Ebv.Io Ebv.Collect Lean

def showErr : Err → String
  | .struct => "struct-error" | .index => "index-error" | .key => "key-error"

def showVals (vs : List Int) : String := "(" ++ ",".intercalate (vs.map toString) ++ ")"

/-- `x` values are floats on the Python side: the scaled integer is recoverable below 2^52 -/
def showFmtVals (f : Fmt) (vs : List Int) : String :=
  match f, vs with
  | .fixed, [v] => if v.natAbs < 2 ^ 52 then showVals vs else "(big)"
  | _, _ => showVals vs

def showRes (f : Fmt) : Except Err (List Int) → String
  | .ok vs => showFmtVals f vs
  | .error e => showErr e

def fmtOf (s : St) (pid name : Nat) : Fmt :=
  match (findProg s.progs pid).bind (resolve · name) with
  | some d => d.fmt
  | none => .fixed

def getDecl (j : Json) : Option Decl := do
  match ← jArr j with
  | [n, m, f] => pure ⟨← jNat n, ← jNat m, ← parseFmt (← jStr f)⟩
  | _ => none

def getProg (j : Json) : Option Prog := do
  let mro ← (← fArr j "mro").mapM fun c => do (← jArr c).mapM getDecl
  pure ⟨← fNat j "id", mro⟩

def getAttrs (j : Json) : Option (List (List MapAttr)) := do
  (← jArr j).mapM fun c => do
    (← jArr c).mapM fun a => do
      match ← jArr a with
      | [x, y] => pure (⟨← jNat x, ← jNat y⟩ : MapAttr)
      | _ => none

def getOp (j : Json) : Option Op := do
  match ← jArr j with
  | [k, a, b, c] =>
    match ← jStr k with
    | "set" => pure (.pySet (← jNat a) (← jNat b) (← (← jArr c).mapM jInt))
    | "store" => pure (.progStore (← jNat a) (← jNat b) (← jInt c))
    | _ => none
  | [k, a, b, c, d] =>
    match ← jStr k with
    | "copy" => pure (.progCopy (← jNat a) (← jNat b) (← jNat c) (← jNat d))
    | "mstore" => pure (.progStoreM (← jNat a) (← jNat b) (← jNat c) (← jInt d))
    | _ => none
  | [k, a, b, c, d, e] =>
    if (← jStr k) = "mcopy" then pure (.progCopyM (← jNat a) (← jNat b) (← jNat c) (← jNat d) (← jNat e)) else none
  | _ => none

def getPair (j : Json) : Option (Nat × Nat) := do
  match ← jArr j with
  | [a, b] => pure (← jNat a, ← jNat b)
  | _ => none

def showPos (found : List MapAttr) (s : St) (k : Nat × Nat) : String :=
  let pos := do
    let d ← (findProg s.progs k.1).bind (resolve · k.2)
    if found.any (·.map = d.map) then s.dicts.get k else none
  s!"{k.1}.{k.2}@" ++ (match pos with | some p => toString p | none => "-")

def percpuPart (j : Json) (s : St) : Option String := do
  match field j "percpu" with
  | none => pure "-"
  | some pc =>
    let m ← fNat pc "map"
    let cpus ← fNat pc "cpus"
    let data ← fBytes pc "data"
    let size := total (triples m s.progs)
    let outs ← (← fArr pc "queries").mapM fun q => do
      match ← jArr q with
      | [a, b, c] =>
        let pid ← jNat a
        let name ← jNat b
        let k ← jInt c
        let r : Except Err (List Int) := do
          let (d, _, pos) ← s.locate pid name
          percpuGet data size cpus d.fmt pos k
        pure (showRes (fmtOf s pid name) r)
      | _ => none
    pure (s!"{size}x{cpus}:" ++ joinSp outs)

def getSet3 (j : Json) : Option (Nat × Nat × List Int) := do
  match ← jArr j with
  | [a, b, c] => pure (← jNat a, ← jNat b, ← (← jArr c).mapM jInt)
  | _ => none

def worldFmt (w : World) (pid name : Nat) : Fmt :=
  match (w.objOf pid).bind fun o => (findProg o.progs pid).bind (resolve · name) with
  | some d => d.fmt
  | none => .fixed

/-- an earlier object of the process: created, then written from Python; its line -/
def preStep (w : World) (j : Json) : Option (World × String) := do
  let progs ← (← fArr j "progs").mapM getProg
  let attrs ← getAttrs (← field j "mapmro")
  let found := ebpfDiscover attrs
  let main ← fNat j "main"
  let w1 := w.create main found progs
  let sets ← (← fArr j "sets").mapM getSet3
  let reads ← (← fArr j "reads").mapM getPair
  let maps := ",".intercalate ((initMaps found progs).map fun (a, sz) => s!"{a.map}:{sz}")
  let pos := joinSp (reads.map fun k => s!"{k.1}.{k.2}@" ++ (match w1.dicts.get k with | some p => toString p | none => "-"))
  let (w2, es) := sets.foldl (fun (acc : World × List String) (p, n, vs) =>
    match acc.1.pySet p n vs with
    | .ok w' => (w', acc.2 ++ ["ok"])
    | .error e => (acc.1, acc.2 ++ [showErr e])) (w1, [])
  pure (w2, s!"maps={maps} pos={pos} ops={",".intercalate es}")

def step (j : Json) : Option String := do
  let progs ← (← fArr j "progs").mapM getProg
  let attrs ← getAttrs (← field j "mapmro")
  let found := if (← fStr j "discover") = "sim" then simDiscover attrs else ebpfDiscover attrs
  -- the objects created earlier in the same process (second instances of the class, subprograms used before)
  let pres ← match field j "pre" with
    | some p => jArr p
    | none => pure []
  let mut w : World := World.empty
  let mut preLines : List String := []
  for pj in pres do
    let (w', l) ← preStep w pj
    w := w'
    preLines := preLines ++ [l]
  let s0 := mkStFrom w.dicts found progs
  let ops ← (← fArr j "ops").mapM getOp
  let reads ← (← fArr j "reads").mapM getPair
  let (s1, errs) := s0.run ops
  let prog ← (← fArr j "prog").mapM getOp
  let (s, perr0) := s1.runProgram prog
  -- accesses of a program whose effect lands elsewhere (per-CPU blocks): only the verifier's verdict
  let check ← match field j "progcheck" with
    | some c => (← jArr c).mapM getOp
    | none => pure []
  let perr := match perr0 with | some e => some e | none => (s.runProgram check).2
  let maps := ",".intercalate ((initMaps found progs).map fun (a, sz) => s!"{a.map}:{sz}")
  let oks := ",".intercalate (found.map fun a => if layoutOkB (triples a.map progs) then "ok" else "overlap")
  let pos := joinSp (reads.map (showPos found s))
  let es := ",".intercalate (errs.map fun | none => "ok" | some e => showErr e)
  let bytes := ",".intercalate (s.arrays.map fun (m, d) => s!"{m}:" ++ hexOfBytes d)
  let vals := joinSp (reads.map fun k => showRes (fmtOf s k.1 k.2) (s.pyGet k.1 k.2))
  let line := s!"maps={maps} layout={oks} pos={pos} ops={es} prog={match perr with | none => "ok" | some e => showErr e} bytes={bytes} reads={vals} percpu={← percpuPart j s}"
  if pres.isEmpty then return line
  -- the earlier objects, looked at again after this one was created
  let w1 := w.create 0 found progs
  let prereads ← match field j "prereads" with
    | some p => (← jArr p).mapM getPair
    | none => pure []
  let pv := joinSp (prereads.map fun k => showRes (worldFmt w1 k.1 k.2) (w1.pyGet k.1 k.2))
  pure (line ++ " pre=" ++ " ; ".intercalate preLines ++ " prereads=" ++ pv)

def main : IO Unit := driverMain step
