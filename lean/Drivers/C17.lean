import Ebv.Driver.Io
import Ebv.Model.Eeprom
import Ebv.Model.EepromHist
open Ebv Ebv.Io Ebv.Eeprom Lean

def showEv : Ev → String
  | .poll 0 => "p"
  | .poll n => s!"p{n}"
  | .cmd a => s!"w{a}"

def showBus (b : Bus) : String :=
  joinSp (b.log.reverse.map showEv) ++ s!" | rest={b.script.length}"

def parsePoll (j : Json) : Option Poll := do
  match ← jArr j with
  | [b, e, k] => pure { busy := ← jBool b, extra := ← jNat e, junk := ← jBytes k }
  | _ => none

def getDev (j : Json) : Option (Dev × Bus) := do
  let img ← fBytes j "image"
  let m ← fBool j "mode8"
  let sc ← (← fArr j "script").mapM parsePoll
  pure (⟨img, m⟩, Bus.init sc)

def showCats (c : Cats) : String :=
  let s := c.mergeSort (fun a b => a.1 ≤ b.1)
  "{" ++ ",".intercalate (s.map fun (k, v) => s!"{k}:{hexOfBytes v}") ++ "}"

def showRes (r : Result) : String :=
  s!"id={r.vendorId},{r.productCode},{r.revisionNo},{r.serialNo} | " ++
    (match r.eeprom with | some c => showCats c | none => "no-end")

def showArea : Option (Nat × Nat) → String
  | none => "-"
  | some (o, s) => s!"{o}+{s}"

def showSM (s : SM × Bool) : String :=
  (if s.2 then "ok" else "struct-error") ++
    s!" mo={showArea s.1.mbx_out} mi={showArea s.1.mbx_in} po={showArea s.1.pdo_out} pi={showArea s.1.pdo_in}" ++
    s!" ia={s.1.pdo_in_addr} oa={s.1.pdo_out_addr}"

def showErr : Err → String
  | .runtime => "runtime-error" | .key => "key-error" | .struct => "struct-error"
  | .ethercat => "ethercat-error" | .attribute => "attribute-error" | .assertion => "assertion-error"

def showLoc : Loc → String
  | .bit n => s!"{n}"
  | .fmt c => c.toString

def showPdos (m : PdoDict) : String :=
  let s := m.mergeSort (fun a b => a.1.1 < b.1.1 || (a.1.1 == b.1.1 && a.1.2 ≤ b.1.2))
  "{" ++ ",".intercalate (s.map fun ((i, si), (sm, by_, l)) => s!"{i}.{si}:{sm}/{by_}/{showLoc l}") ++ "}"

def showPair : Except Err (Nat × Nat) → String
  | .ok (a, b) => s!"ok {a} {b}"
  | .error e => showErr e

def getOd (j : Json) : Option OD := do
  (← fArr j "od").mapM fun r => do
    match ← jArr r with
    | [i, s, d] => pure ((← jNat i, ← jNat s), ← jBytes d)
    | _ => none

/-! histories (Ebv.Model.EepromHist) -/

def showHEv : HEv → String
  | .rd e => showEv e
  | .wcmd a v => s!"W{a}:{v}"
  | .clr => "c"
  | .fail => "X"

def showPairQ : Option (Nat × Nat) → String
  | some (a, b) => s!"{a},{b}"
  | none => "?,?"

def showSMAttrs (s : SM) : String :=
  s!"mo={showArea s.mbx_out} mi={showArea s.mbx_in} po={showArea s.pdo_out} pi={showArea s.pdo_in}" ++
    s!" ia={s.pdo_in_addr} oa={s.pdo_out_addr}"

def showTerm (t : Eeprom.Term) : String :=
  " | ".intercalate [s!"id={showPairQ t.vp},{showPairQ t.rs}",
    (match t.eeprom with | some c => showCats c | none => "no-eeprom"),
    (match t.sm with | some s => showSMAttrs s | none => "no-sm"),
    (match t.pdos with | some p => showPdos p | none => "no-pdos")]

def showResH : Res → String
  | .ok => "ok"
  | .okPair a b => s!"ok {a} {b}"
  | .err e => showErr e
  | .failed => "failed"
  | .skipped => "skipped"

def showObs (name : String) (t : Eeprom.Term) (o : Obs) : String :=
  " | ".intercalate [s!"{name}:{showResH o.res}", showTerm t,
    (match o.sm with | some s => showSM s | none => "-"),
    (match o.w800 with | some w => hexOfBytes w | none => "-"),
    joinSp (o.log.map showHEv), s!"rest={o.rest}"]

def getScript (j : Json) : Option (List Poll) := do (← fArr j "script").mapM parsePoll

def getOdDev (j : Json) : Option (Dev × OD) := do
  pure (⟨← fBytes j "image", ← fBool j "mode8"⟩, ← getOd j)

def getAct (j : Json) : Option (String × Act) := do
  let name ← fStr j "do"
  match name with
  | "read" => pure (name, .read (← getScript j) none)
  | "cut" => pure (name, .read (← getScript j) (some (← fNat j "n")))
  | "write" => pure (name, .write (← fNat j "start") (← fNat j "data") (← getScript j))
  | "swap" => let (d, od) ← getOdDev j; pure (name, .swap d od)
  | "sm" => pure (name, .sm)
  | "pdos" => pure (name, .pdos)
  | "apply" => pure (name, .apply (← getScript j))
  | "gentle" => pure (name, .gentle (← fBytes j "regs") (← getScript j))
  | _ => none

def histStep (j : Json) : Option String := do
  let terms ← fArr j "terms"
  let devs ← fArr j "devs"
  let w : List Slot ← (terms.zip devs).mapM fun (t, d) => do
    let (dev, od) ← getOdDev d
    pure { term := { ebpf := (← fStr t "cls") == "E" }, dev := dev, od := od, addr := 0 }
  let steps ← (← fArr j "steps").mapM fun s => do
    let (name, a) ← getAct s
    pure (name, (⟨← fNat s "k", a⟩ : Step))
  let obs := runObs w (steps.map (·.2))
  let lines := (steps.zip obs).map fun ((name, _), o) =>
    match o with
    | some (t, ob) => showObs name t ob
    | none => "no-such-terminal"
  let fin := (runW w (steps.map (·.2))).map fun s => showTerm s.term
  pure (" || ".intercalate lines ++ " || final: " ++ " ## ".intercalate fin)

def step (j : Json) : Option String := do
  match ← fStr j "op" with
  | "hist" => histStep j
  | "read_one" =>
    let (d, b) ← getDev j
    let r := readOne d (← fNat j "start") b
    pure (hexOfBytes r.1 ++ " | " ++ showBus r.2)
  | "eeprom" =>
    let (d, b) ← getDev j
    let r := readEeprom d b
    pure (showRes r ++ " | " ++ showBus r.bus)
  | "sm" => pure (showSM (parseSM (← fBytes j "data")))
  | "pdos" =>
    let od ← getOd j
    let cats ← (← fArr j "eeprom").mapM fun r => do
      match ← jArr r with
      | [t, d] => pure (← jNat t, ← jBytes d)
      | _ => none
    let r := parsePdos (← fBool j "mbx") od cats
    pure (showPair r.2 ++ " | " ++ showPdos r.1)
  | "apply" =>
    let (d, b) ← getDev j
    let od ← getOd j
    let a := applyEeprom d b od
    pure (showRes a.res ++ " | " ++ (match a.sm with | some s => showSM s | none => "no-sm") ++ " | " ++
      (match a.smWritten with | some w => hexOfBytes w | none => "-") ++ " | " ++
      showPair a.sizes ++ " | " ++ showPdos a.pdos ++ " | " ++ showBus a.res.bus)
  | _ => none

def main : IO Unit := driverMain step
