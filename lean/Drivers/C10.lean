import Ebv.Driver.Io
import Ebv.Model.MapCalls
open Ebv Ebv.Io Ebv.MapCalls Lean

def showLen : Option Nat → String → String
  | some n, _ => toString n
  | none, d => d

def showCall (c : Call) : String := s!"{c.cmd}:{showLen c.keyLen "null"}:{showLen c.valueLen "-"}"

def showCalls (cs : List Call) : String := ",".intercalate (cs.map showCall)

def showGeo (d : Decl) : String :=
  (match geometry d with
   | some g => s!"{g.mapType}/{g.keySize}/{g.valueSize}/{g.maxEntries}/{g.flags}"
   | none => "") ++ " mmap=" ++ (match mmapLen d with | some n => toString n | none => "")

def sizesOf (js : List Json) : Option (List Nat) := js.mapM fun j => do fmtsize (← jStr j)

def parseDecl (j : Json) : Option Decl := do
  let kind ← fStr j "kind"
  if kind == "array" then pure (.array (← sizesOf (← fArr j "fmts")))
  else if kind == "percpu" then pure (.percpu (← sizesOf (← fArr j "fmts")))
  else if kind == "hashvars" then
    let vs ← (← fArr j "vars").mapM fun v => do
      match ← jArr v with
      | f :: _ => fmtsize (← jStr f)
      | _ => none
    pure (.hashVars vs)
  else if kind == "dict" then
    pure (.dict (← sizesOf (← fArr j "key")) (← sizesOf (← fArr j "value")) (← fNat j "size") (← fBool j "lru"))
  else if kind == "progarray" then pure .progArray
  else none

/-- one harness call: the API calls it stands for (the harness reads a per-CPU map before the first item access) -/
def parseCall (d : Decl) (hasRead : Bool) (c : List Json) : Option (List Api × Bool × Bool) := do
  let op ← jStr (← c.head?)
  let arg (i : Nat) : Option Nat := do jNat (← c[i]?)
  match d, op with
  | .array _, "set" => pure ([.arraySet (← arg 1)], hasRead, false)
  | .array _, "get" => pure ([.arrayGet (← arg 1)], hasRead, false)
  | .percpu _, "read" => pure ([.percpuRead], true, true)
  | .percpu _, "item" => pure ((if hasRead then [] else [.percpuRead]) ++ [.percpuItem (← arg 1) (← arg 2)], true, false)
  | .hashVars _, "load" => pure ([.hvLoad], hasRead, false)
  | .hashVars _, "get" => pure ([.hvGet (← arg 1)], hasRead, false)
  | .hashVars _, "set" => pure ([.hvSet (← arg 1)], hasRead, false)
  | .dict .., "setitem" => pure ([.dSet], hasRead, false)
  | .dict .., "getitem" => pure ([.dGet], hasRead, false)
  | .dict .., "pop" => pure ([.dPop], hasRead, false)
  | .dict .., "popd" => pure ([.dPop], hasRead, false)
  | .dict .., "del" => pure ([.dDel], hasRead, false)
  | .dict .., "iter" => pure ([.dIter (← arg 1)], hasRead, false)
  | .progArray, "register" => pure ([.register (← arg 1)], hasRead, false)
  | _, _ => none

def step (j : Json) : Option String := do
  let ncpu ← fNat j "possible"
  let d ← parseDecl (← field j "decl")
  let cs ← fArr j "calls"
  let mut outs : List String := []
  let mut hasRead := false
  match d with
  | .progArray => pure ()
  | _ => outs := [showCalls (calls ncpu d .load)]
  for c in cs do
    let (apis, hr, showLenSuffix) ← parseCall d hasRead (← jArr c)
    hasRead := hr
    let issued := apis.flatMap (calls ncpu d)
    let suffix := if showLenSuffix then
        match issued with
        | [⟨_, _, some n⟩] => s!"={n}"
        | _ => ""
      else ""
    outs := outs ++ [showCalls issued ++ suffix]
  pure (showGeo d ++ " | " ++ " ; ".intercalate outs)

def main : IO Unit := driverMain step
