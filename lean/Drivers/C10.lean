import Ebv.Driver.Io
import Ebv.Model.MapCalls
open Ebv Ebv.Io Ebv.MapCalls Lean

def showLen : Option Nat → String → String
  | some n, _ => toString n
  | none, d => d

def showCall (c : Call) : String := s!"{c.cmd}:{showLen c.keyLen "null"}:{showLen c.valueLen "-"}"

def showCalls (cs : List Call) : String := ",".intercalate (cs.map showCall)

def showGeo (d : Decl) : String :=
  (match geometry d with
   | some g => s!"{g.mapType}/{g.keySize}/{g.valueSize}/{g.maxEntries}/{g.flags}"
   | none => "") ++ " mmap=" ++ (match mmapLen d with | some n => toString n | none => "")

def sizesOf (js : List Json) : Option (List Nat) := js.mapM fun j => do fmtsize (← jStr j)

def parseDecl (j : Json) : Option Decl := do
  let kind ← fStr j "kind"
  if kind == "array" then pure (.array (← sizesOf (← fArr j "fmts")))
  else if kind == "percpu" then pure (.percpu (← sizesOf (← fArr j "fmts")))
  else if kind == "hashvars" then
    let vs ← (← fArr j "vars").mapM fun v => do
      match ← jArr v with
      | f :: _ => fmtsize (← jStr f)
      | _ => none
    pure (.hashVars vs)
  else if kind == "dict" then
    pure (.dict (← sizesOf (← fArr j "key")) (← sizesOf (← fArr j "value")) (← fNat j "size") (← fBool j "lru"))
  else if kind == "progarray" then pure .progArray
  else none

/-- one harness call: the API calls it stands for (the harness reads a per-CPU map before the first item access) -/
def parseCall (d : Decl) (hasRead : Bool) (c : List Json) : Option (List Api × Bool × Bool) := do
  let op ← jStr (← c.head?)
  let arg (i : Nat) : Option Nat := do jNat (← c[i]?)
  match d, op with
  | .array _, "set" => pure ([.arraySet (← arg 1)], hasRead, false)
  | .array _, "get" => pure ([.arrayGet (← arg 1)], hasRead, false)
  | .percpu _, "read" => pure ([.percpuRead], true, true)
  | .percpu _, "item" => pure ((if hasRead then [] else [.percpuRead]) ++ [.percpuItem (← arg 1) (← arg 2)], true, false)
  | .hashVars _, "load" => pure ([.hvLoad], hasRead, false)
  | .hashVars _, "get" => pure ([.hvGet (← arg 1)], hasRead, false)
  | .hashVars _, "set" => pure ([.hvSet (← arg 1)], hasRead, false)
  | .dict .., "setitem" => pure ([.dSet], hasRead, false)
  | .dict .., "getitem" => pure ([.dGet], hasRead, false)
  | .dict .., "pop" => pure ([.dPop], hasRead, false)
  | .dict .., "popd" => pure ([.dPop], hasRead, false)
  | .dict .., "del" => pure ([.dDel], hasRead, false)
  | .dict .., "iter" => pure ([.dIter (← arg 1)], hasRead, false)
  | .progArray, "register" => pure ([.register (← arg 1)], hasRead, false)
  | _, _ => none

def step (j : Json) : Option String := do
  let ncpu ← fNat j "possible"
  let d ← parseDecl (← field j "decl")
  let cs ← fArr j "calls"
  let mut outs : List String := []
  let mut hasRead := false
  match d with
  | .progArray => pure ()
  | _ => outs := [showCalls (calls ncpu d .load)]
  for c in cs do
    let (apis, hr, showLenSuffix) ← parseCall d hasRead (← jArr c)
    hasRead := hr
    let issued := apis.flatMap (calls ncpu d)
    let suffix := if showLenSuffix then
        match issued with
        | [⟨_, _, some n⟩] => s!"={n}"
        | _ => ""
      else ""
    outs := outs ++ [showCalls issued ++ suffix]
  pure (showGeo d ++ " | " ++ " ; ".intercalate outs)

/-! family cases: several instances around one shared descriptor, run through `stepEvent` -/

def sizesList (js : List Json) : Option (List (List Nat)) := js.mapM fun j => do sizesOf (← jArr j)

def parseDictGeo (j : Json) : Option DictGeo := do
  pure ⟨← sizesOf (← fArr j "key"), ← sizesOf (← fArr j "value"), ← fNat j "size", ← fBool j "lru"⟩

def parseFamily (j : Json) : Option Family := do
  let kind ← fStr j "map"
  if kind == "array" then
    pure (.array (← sizesOf (← fArr j "base")) (← sizesList (← fArr j "derived")) (← sizesList (← fArr j "subs")))
  else if kind == "percpu" then
    pure (.percpu (← sizesOf (← fArr j "base")) (← sizesList (← fArr j "derived")) (← sizesList (← fArr j "subs")))
  else if kind == "hashvars" then
    let vs ← (← fArr j "base").mapM fun v => do
      match ← jArr v with
      | f :: _ => fmtsize (← jStr f)
      | _ => none
    pure (.hashVars vs)
  else if kind == "dict" then
    let ds ← (← fArr j "derived").mapM fun d =>
      if d.isNull then some none else (parseDictGeo d).map some
    pure (.dict (← parseDictGeo (← field j "base")) ds)
  else none

def parseInst (j : Json) : Option Inst := do
  pure ⟨← fNat j "cls", ← (← fArr j "subs").mapM jNat⟩

def geoOf (g : Geometry) : String := s!"{g.mapType}/{g.keySize}/{g.valueSize}/{g.maxEntries}/{g.flags}"

def stepFamily (j : Json) : Option String := do
  let ncpu ← fNat j "possible"
  let f ← parseFamily (← field j "family")
  let insts ← (← fArr j "instances").mapM parseInst
  let cs ← fArr j "calls"
  let mut w := World.empty
  for i in insts do
    w := (stepEvent f ncpu w (.create i)).1
  let mut outs : List String := []
  for idx in List.range insts.length do
    outs := outs ++ [showCalls (stepEvent f ncpu w (.use idx .load)).2]
  let mut haveRead : List Nat := []
  for c in cs do
    match ← jArr c with
    | [] => none
    | ji :: rest =>
      if jStr ji == some "new" then
        let i ← parseInst (← rest.head?)
        w := (stepEvent f ncpu w (.create i)).1
        outs := outs ++ [showCalls (stepEvent f ncpu w (.use (w.insts.length - 1) .load)).2]
        continue
      let idx ← jNat ji
      let st ← w.insts[idx]?
      let (apis, hr, showLenSuffix) ← parseCall st.decl (haveRead.contains idx) rest
      if hr then haveRead := idx :: haveRead
      let issued := apis.flatMap fun a => (stepEvent f ncpu w (.use idx a)).2
      let suffix := if showLenSuffix then
          match issued with
          | [⟨_, _, some n⟩] => s!"={n}"
          | _ => ""
        else ""
      outs := outs ++ [showCalls issued ++ suffix]
  let geos := w.insts.filterMap fun st => st.geo.map geoOf
  let mmaps := w.insts.filterMap fun st => (mmapLen st.decl).map toString
  pure (" ".intercalate geos ++ " mmap=" ++ ",".intercalate mmaps ++ " | " ++ " ; ".intercalate outs)

def stepAny (j : Json) : Option String :=
  match field j "family" with
  | some _ => stepFamily j
  | none => step j

def main : IO Unit := driverMain stepAny
