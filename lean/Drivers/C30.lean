import Ebv.Driver.Io
import Ebv.Model.SlowCycle
open Ebv Ebv.Io Ebv.SlowCycle Ebv.Bytes Lean

/-- `[0, start, n, signed]` = struct variable of n bytes, `[1, start, k, _]` = bit k -/
def parseVar (j : Json) : Option (Var × Bool) := do
  match ← jArr j with
  | [kind, s, n, sg] =>
    let s ← jNat s
    let n ← jNat n
    match ← jNat kind with
    | 0 => pure (.bytes s n, (← jNat sg) != 0)
    | 1 => pure (.bit s n, false)
    | _ => none
  | _ => none

/-- what the Python device sees: signed formats are read as signed numbers -/
def view (x : Var × Bool) (raw : Nat) : Int :=
  match x.1 with
  | .bytes _ n => if x.2 then toSigned n raw else raw
  | .bit _ _ => raw

/-- scripted device: output j gets a_j + m_j * (sum of the unsigned images read) + k_j * cycle (mod 2 for a bit) -/
def devFun (params : List (Nat × Nat × Nat)) (outs : List Var) (seen : List Nat) (c : Nat) : List Nat :=
  (params.zip outs).map fun (p, o) =>
    let v := p.1 + p.2.1 * seen.sum + p.2.2 * c
    match o with
    | .bytes _ _ => v
    | .bit _ _ => v % 2

def parseDev (j : Json) : Option (Dev × List (Var × Bool)) := do
  let ins ← (← fArr j "ins").mapM parseVar
  let outs ← (← fArr j "outs").mapM parseVar
  let params ← (← fArr j "params").mapM fun p => do
    match ← jArr p with
    | [a, m, k] => pure (← jNat a, ← jNat m, ← jNat k)
    | _ => none
  let ovs := outs.map (·.1)
  pure ({ ins := ins.map (·.1), outs := ovs, f := devFun params ovs }, ins)

def applyPatches (fr : Frame) : List (Nat × List UInt8) → Frame
  | [] => fr
  | (o, bs) :: t => applyPatches (setRange fr o bs) t

def showSeen (insSpec : List (List (Var × Bool))) (cyc : List (List Nat)) : String :=
  "/".intercalate ((insSpec.zip cyc).map fun (spec, vals) =>
    ",".intercalate ((spec.zip vals).map fun (x, v) => toString (view x v)))

/-- one run of the group (`start()` on a group whose earlier runs left `prev`): layout, assembled packet and bus events of
that run; returns the state at its end, the input formats and whether the layout hypothesis holds -/
def runOne (prev : St) (j : Json) : Option (St × List (List (Var × Bool)) × Bool) := do
  let asm ← fBytes j "asm"
  let counters ← (← fArr j "counters").mapM fun c => do
    match ← jArr c with
    | [p, e] => pure (← jNat p, ← jNat e)
    | _ => none
  let devs ← (← fArr j "devs").mapM parseDev
  let cfg : Cfg := { counters := counters, devs := devs.map (·.1) }
  let insSpec := devs.map (·.2)
  let mut st := restart prev asm
  for e in ← fArr j "events" do
    match ← jArr e with
    | [_] => st := SlowCycle.step cfg st .timeout
    | [_, ps] =>
      let patches ← (← jArr ps).mapM fun p => do
        match ← jArr p with
        | [o, h] => pure (← jNat o, ← jBytes h)
        | _ => none
      let lastSent := st.sent.getLast?.getD []
      st := SlowCycle.step cfg st (.resp (applyPatches lastSent patches))
    | _ => none
  pure (st, insSpec, decide (Layout cfg asm.length))

def step (j : Json) : Option String := do
  -- the earlier runs of the same group object (`earlier`, oldest first), then the run that is reported
  let mut prev := init []
  match field j "earlier" with
  | some e =>
    if !e.isNull then
      for r in ← jArr e do
        prev := (← runOne prev r).1
  | none => pure ()
  let (st, insSpec, lay) ← runOne prev j
  pure (joinSp (st.sent.map hexOfBytes) ++ " | " ++ ";".intercalate (st.seen.map (showSeen insSpec))
        ++ " | " ++ toString st.errors ++ " | " ++ toString st.missed
        ++ " | layout=" ++ (if lay then "1" else "0"))

def main : IO Unit := driverMain step
