import Ebv.Driver.Io
import Ebv.Model.PktVar
open Ebv Ebv.Io Ebv.PktVar Lean

def parseFmt (j : Json) : Option Fmt := do
  let s ← fStr j "fmt"
  let cs := s.toList
  let (o, c) ← match cs with
    | [c] => some (Order.native, c)
    | ['<', c] => some (Order.le, c)
    | ['>', c] => some (Order.be, c)
    | ['!', c] => some (Order.be, c)
    | _ => none
  let n ← match c.toLower with
    | 'b' => some 1 | 'h' => some 2 | 'i' => some 4 | 'q' => some 8 | _ => none
  pure ⟨n, c.isLower, o⟩

def step (j : Json) : Option String := do
  let f ← parseFmt j
  let op ← fStr j "op"
  if op == "read" then
    pure (toString (readReg f (← fBool j "long") (← fBytes j "bytes")))
  else if op == "write" then
    pure (hexOfBytes (writeBytes f (← fNat j "value")))
  else if op == "iadd" then
    pure (hexOfBytes (iaddBytes f (← fBytes j "bytes") (← fInt j "amount")))
  else if op == "guard" then
    pure (toString (guardRuns (← fNat j "N") (← fNat j "len")))
  else none

def main : IO Unit := driverMain step
