import Ebv.Driver.Io
import Ebv.Model.PktVar
import Ebv.Model.PktSeq
open Ebv Ebv.Io Ebv.PktVar Lean

def parseFmtStr (s : String) : Option Fmt := do
  let cs := s.toList
  let (o, c) ← match cs with
    | [c] => some (Order.native, c)
    | ['<', c] => some (Order.le, c)
    | ['>', c] => some (Order.be, c)
    | ['!', c] => some (Order.be, c)
    | _ => none
  let n ← match c.toLower with
    | 'b' => some 1 | 'h' => some 2 | 'i' => some 4 | 'q' => some 8 | _ => none
  pure ⟨n, c.isLower, o⟩

def parseFmt (j : Json) : Option Fmt := do parseFmtStr (← fStr j "fmt")

/-- a reference `["v", i]` (variable i: packet variable at its offset, or the i-th local slot) or `["a", letter, pos]`
(packet array element), with its format -/
def parseRef (vars : List (String × Fmt × Nat)) (j : Json) : Option (Fmt × Ref) := do
  match ← jArr j with
  | [t, i] =>
    if (← jStr t) != "v" then none
    let i ← jNat i
    let (kind, f, off) ← vars[i]?
    pure (f, if kind == "p" then Ref.pkt off else Ref.loc i)
  | [t, l, p] =>
    if (← jStr t) != "a" then none
    pure (← parseFmtStr (← jStr l), Ref.pkt (← jNat p))
  | _ => none

def parseStmt (vars : List (String × Fmt × Nat)) (j : Json) : Option Stmt := do
  let a ← jArr j
  let t ← jStr (← a[0]?)
  if t == "copy" then
    let (df, d) ← parseRef vars (← a[1]?)
    let (sf, s) ← parseRef vars (← a[2]?)
    pure (.copy df d sf s)
  else if t == "via" then
    let (df, d) ← parseRef vars (← a[1]?)
    let (sf, s) ← parseRef vars (← a[2]?)
    pure (.via df d sf s (← jBool (← a[3]?)) (← jNat (← a[4]?)))
  else if t == "iadd" then
    let (df, d) ← parseRef vars (← a[1]?)
    let (sf, s) ← parseRef vars (← a[2]?)
    pure (.iadd df d sf s ((← jInt (← a[3]?)) < 0))
  else if t == "const" then
    let (df, d) ← parseRef vars (← a[1]?)
    pure (.const df d ((← jInt (← a[2]?)) % (2 ^ 64 : Int)).toNat)
  else if t == "iaddc" then
    let (df, d) ← parseRef vars (← a[1]?)
    pure (.iaddc df d (← jInt (← a[2]?)))
  else if t == "read" then
    let (sf, s) ← parseRef vars (← a[2]?)
    pure (.read (← jNat (← a[1]?)) sf s (← jBool (← a[3]?)))
  else none

def parseVar (j : Json) : Option (String × Fmt × Nat) := do
  match ← jArr j with
  | [k, f, o] => pure (← jStr k, ← parseFmtStr (← jStr f), ← jNat o)
  | _ => none

def insertReg (e : Nat × Nat) : List (Nat × Nat) → List (Nat × Nat)
  | [] => [e]
  | x :: xs => if e.1 ≤ x.1 then e :: x :: xs else x :: insertReg e xs

/-- a whole program on one packet: `<packet> <local,local,…> <k=v,…>` -/
def seqStep (j : Json) : Option String := do
  let vars ← (← fArr j "vars").mapM parseVar
  let sts ← (← fArr j "stmts").mapM (parseStmt vars)
  let m : Mem := ⟨← fBytes j "pkt", vars.map fun (k, f, _) => if k == "l" then Ebv.Bytes.zeros f.n else []⟩
  let m' := execAll sts m
  let rs := (execAllRegs sts m []).foldr insertReg []
  let locs := (vars.zip m'.loc).filterMap fun ((k, _, _), b) => if k == "l" then some (hexOfBytes b) else none
  pure (hexOfBytes m'.pkt ++ " " ++ ",".intercalate locs ++ " " ++ ",".intercalate (rs.map fun (k, v) => s!"{k}={v}"))

def step (j : Json) : Option String := do
  let op ← fStr j "op"
  if op == "seq" then
    seqStep j
  else
  let f ← parseFmt j
  if op == "read" then
    pure (toString (readReg f (← fBool j "long") (← fBytes j "bytes")))
  else if op == "write" then
    pure (hexOfBytes (writeBytes f (← fNat j "value")))
  else if op == "iadd" then
    pure (hexOfBytes (iaddBytes f (← fBytes j "bytes") (← fInt j "amount")))
  else if op == "guard" then
    pure (toString (guardRuns (← fNat j "N") (← fNat j "len")))
  else none

def main : IO Unit := driverMain step
