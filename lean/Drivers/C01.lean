import Ebv.Driver.Io
import Ebv.Model.Gen
open Ebv Ebv.Io Ebv.Ebpf Ebv.Gen Lean

def parseView : String → Option View
  | "r" => some .r | "sr" => some .sr | "w" => some .w | "sw" => some .sw | _ => none

def parseFmt : String → Option Fmt
  | "B" => some .B | "H" => some .H | "I" => some .I | "Q" => some .Q
  | "b" => some .b | "h" => some .h | "i" => some .i | "q" => some .q | _ => none

def parseOp : String → Option SOp
  | "+" => some .add | "-" => some .sub | "*" => some .mul | "//" => some .floordiv | "%" => some .mod
  | "&" => some .and | "|" => some .or | "^" => some .xor | "<<" => some .lsh | ">>" => some .rsh | _ => none

/-- `["let", name, a, body]` builds the object of `a` once and uses it wherever `body` says `["ref", name]` (the
harness does that with one real Python object).  The operator overloads never mutate an operand, so the shared object
is the same as a copy of its tree at every use: the parser substitutes. -/
partial def parseExprIn (bound : List (String × SExpr)) (j : Json) : Option SExpr := do
  match ← jArr j with
  | [k, a] =>
    let k ← jStr k
    if k == "c" then pure (.c (← jInt a))
    else if k == "v" then pure (.var (← jStr a))
    else if k == "ref" then (do let n ← jStr a; (bound.find? (·.1 == n)).map (·.2))
    else if k == "neg" then pure (.neg (← parseExprIn bound a))
    else if k == "abs" then pure (.abs (← parseExprIn bound a))
    else pure (.reg (← parseView k) (← jNat a))
  | [k, a, b] =>
    let k ← jStr k
    if k == "m" then pure (.m (← parseFmt (← jStr a)) (← parseExprIn bound b))
    else pure (.bin (← parseOp k) (← parseExprIn bound a) (← parseExprIn bound b))
  | [k, n, a, b] =>
    if (← jStr k) == "let" then do
      let x ← parseExprIn bound a
      parseExprIn ((← jStr n, x) :: bound) b
    else none
  | _ => none

def parseExpr (j : Json) : Option SExpr := parseExprIn [] j

def parseDest (j : Json) : Option Dest := do
  match ← jArr j with
  | [k, a] =>
    let k ← jStr k
    if k == "v" then pure (.var (← jStr a)) else pure (.reg (← parseView k) (← jNat a))
  | _ => none

def parseStmt (j : Json) : Option Stmt := do
  match ← jArr j with
  | [k, d, e] => if (← jStr k) == "set" then pure (.set (← parseDest d) (← parseExpr e)) else none
  | _ => none

def parseVar (j : Json) : Option VarDecl := do
  match ← jArr j with
  | [n, f, k] =>
    let k ← jStr k
    pure ⟨← jStr n, ← parseFmt (← jStr f), if k == "g" then .glob else .loc⟩
  | _ => none

def parseProg (j : Json) : Option Prog := do
  pure ⟨← (← fArr j "owned").mapM jNat, ← (← fArr j "vars").mapM parseVar, ← (← fArr j "stmts").mapM parseStmt⟩

def showInsn (i : Insn) : String := s!"{i.op}:{i.dst}:{i.src}:{i.off}:{i.imm}"

def showErr : AsmError → String
  | .asm => "asm-error"
  | .other t => "other:" ++ t

partial def showTree : Expr → String
  | .const v => s!"c{v}"
  | .reg no lg sg => (if sg then "s" else "") ++ (if lg then "r" else "w") ++ toString no
  | .bin op l r sg k =>
    let nm := match k with | .sum => "sum" | .and => "and" | .plain => op.name
    s!"({nm} {showTree l} {showTree r} {if sg then "s" else "u"})"
  | .neg a => s!"(neg {showTree a})"
  | .abs a => s!"(abs {showTree a})"
  | .mem f a => s!"(mem {f.name} {showTree a})"

def showVal : PyVal → String
  | .int v => s!"i{v}"
  | .ex e => showTree e

def step (j : Json) : Option String := do
  let p ← parseProg j
  match emitProg p with
  | .error e => pure ("err " ++ showErr e)
  | .ok code =>
    let env := layout p.vars
    let trees := p.stmts.map fun s => match s with
      | .set _ e => match elabE env e with | .ok v => showVal v | .error _ => "?"
    let cls := p.stmts.map fun s =>
      let c := (stmtClasses env s).toArray.qsort (· < ·) |>.toList
      if c.isEmpty then "-" else ",".intercalate c
    pure ("ok " ++ joinSp (code.map showInsn) ++ " | " ++ " ; ".intercalate trees ++ " | " ++ " ; ".intercalate cls)

def main : IO Unit := driverMain step
