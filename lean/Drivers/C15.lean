import Ebv.Driver.Io
import Ebv.Model.Mbx
open Ebv Ebv.Io Ebv.Mbx Lean

def showEv : Ev → String
  | .acq t => s!"a{t}"
  | .send t c => s!"s{t}={c}"
  | .recv t => s!"r{t}"
  | .rel t => s!"l{t}"
  | .err t => s!"e{t}"
  | .abort t => s!"x{t}"

def showX : XEv → String
  | .creat p true => s!"c{p}+"
  | .creat p false => s!"c{p}-"
  | .opened p => s!"o{p}"
  | .winit p => s!"w{p}"
  | .lockOk p t => s!"L{p}.{t}"
  | .lockBusy p t => s!"B{p}.{t}"
  | .pread p t v => s!"R{p}.{t}={v}"
  | .preadEmpty p t => s!"R{p}.{t}!"
  | .send p t c => s!"S{p}.{t}={c}"
  | .sendNone p t => s!"S{p}.{t}!"
  | .recv p t => s!"V{p}.{t}"
  | .pwrite p t c => s!"W{p}.{t}={c}"
  | .pwriteNone p t => s!"W{p}.{t}!"
  | .unlock p t => s!"U{p}.{t}"
  | .abort p t => s!"X{p}.{t}"

/-- who is inside after these events -/
def holderAfter (h : Option Nat) : List Ev → Option Nat
  | [] => h
  | .acq t :: es => holderAfter (some t) es
  | .rel _ :: es => holderAfter none es
  | _ :: es => holderAfter h es

/-- one phase of the event loop: the gates of the tasks in `queue` were opened in this order; a task whose
future gets its result during the phase is appended to the ready queue (asyncio's FIFO order) -/
def phase : Nat → St → List Nat → List Ev → St × List Ev
  | 0, s, _, acc => (s, acc)
  | _, s, [], acc => (s, acc)
  | fuel + 1, s, t :: q, acc =>
    let (s', evs) := step s t
    let q' := if !s.woken && s'.woken then q ++ (s'.waiters.head?).toList else q
    -- the exception that abandons a request runs on through `__aexit__` without suspending: the release follows at once
    let q'' := if evs.any (fun e => match e with | .abort _ => true | _ => false) then t :: q' else q'
    phase fuel s' q'' (acc ++ evs)

def inproc (tasks : List (List Sec)) (sched : List (List Nat)) : String :=
  let rec go (s : St) (h : Option Nat) (all : List Ev) : List (List Nat) → List String → List String × List Ev
    | [], out => (out ++ [s!"k{s.counter}"], all)
    | b :: bs, out =>
      let b' := b.filter fun t => !(s.waiters.contains t)
      let (s', evs) := phase (3 * b.length + 4) s b' []
      let h' := holderAfter h evs
      let own := match h' with | some t => s!"/{t}" | none => "/-"
      let lk := if s'.locked then "L" else "U"
      go s' h' (all ++ evs) bs (out ++ evs.map showEv ++ [own ++ lk ++ s!"{s'.waiters.length}"])
  let (out, all) := go (init tasks) none [] sched []
  joinSp out ++ " # " ++ (if check chk0 all then "ok" else "bad")

/-- the harness lets a process run until its next scheduling point: a task whose `task_lock` future got its
result in a step resumes (takes the task lock) before the process answers, exactly one extra model step -/
def crossRun (s : XSt) : List (Nat × Nat) → List XEv → XSt × List XEv
  | [], acc => (s, acc)
  | (p, t) :: rest, acc =>
    let (s0, e0) := stepX s (p, t)
    -- the exception that abandons a request runs on into `__aexit__`: its pwrite belongs to the same step of the process
    let (s1, e1) := if e0.any (fun e => match e with | .abort _ _ => true | _ => false)
      then (let (sa, ea) := stepX s0 (p, t); (sa, e0 ++ ea)) else (s0, e0)
    let (s2, e2) :=
      if !(s.procs p).twoken && (s1.procs p).twoken then
        match (s1.procs p).twaiters.head? with
        | some w => stepX s1 (p, w)
        | none => (s1, [])
      else (s1, [])
    crossRun s2 rest (acc ++ e1 ++ e2)

def cross (size off : Nat) (file : Option (List Nat)) (tasks : List (List (List Sec))) (sched : List (Nat × Nat)) : String :=
  let (s, evs) := crossRun (initX size off file tasks) sched []
  let own := match s.file.owner with | some p => s!"{p}" | none => "-"
  let pres := if s.file.present then "1" else "0"
  joinSp (evs.map showX) ++ s!" | f={pres}:" ++ ",".intercalate (s.file.data.map toString) ++ s!" own={own}"
    ++ " # " ++ (if checkX xchk0 evs then "ok" else "bad")

def natList (j : Json) : Option (List Nat) := do (← jArr j).mapM jNat

/-- a block: `n` (complete exchanges, left normally) or `[n, cut, …]` (cut ≠ 0: one more request, then the exception) -/
def jSec (j : Json) : Option Sec :=
  match jNat j with
  | some n => some { n := n, cut := false }
  | none => do
    match ← jArr j with
    | n :: c :: _ => pure { n := ← jNat n, cut := (← jNat c) != 0 }
    | _ => none

def secList (j : Json) : Option (List Sec) := do (← jArr j).mapM jSec

/-- a `hist` case: phases, each with an owner (a process = one lock object) and tasks with their blocks.  Every
(phase, task) becomes a task of its own of the owner's process; the phases run one after the other, the tasks of a
phase round-robin until all are done.  Printed: the counters of the messages on the bus, and what the lock keeps for
the next user (the `MailboxLock`'s counter / the terminal's byte in the lock file). -/
def hist (j : Json) : Option String := do
  let lock ← fStr j "lock"
  let phases ← (← fArr j "phases").mapM fun ph => do
    let owner ← fNat ph "owner"
    let tasks ← (← fArr ph "tasks").mapM secList
    pure (owner, tasks)
  let nown := (phases.map (·.1)).foldl max 0 + 1
  -- task ids: position in the list of all (phase, task) pairs of that owner
  let tagged : List (Nat × Nat × List Sec) := (phases.mapIdx fun i (o, ts) => ts.map fun secs => (i, o, secs)).flatten
  let tasksOf (o : Nat) : List (Nat × List Sec) := (tagged.filter fun x => x.2.1 == o).map fun x => (x.1, x.2.2)
  let idsOf (i o : Nat) : List Nat := ((tasksOf o).mapIdx fun t x => (t, x.1)).filterMap fun tx => if tx.2 == i then some tx.1 else none
  let steps (secs : List Sec) : Nat := (secs.map fun x => 2 * x.n + 8).sum + 2
  if lock == "parallel" then
    let tasks : List (List (List Sec)) := (List.range nown).map fun o => (tasksOf o).map (·.2)
    let opening : List (Nat × Nat) := ((List.range nown).map fun o => [(o, 0), (o, 0)]).flatten
    let sched : List (Nat × Nat) := opening ++ (phases.mapIdx fun i (o, ts) =>
      let ids := idsOf i o
      let rounds := (ts.map steps).sum + 2
      (List.replicate rounds (ids.map fun t => (o, t))).flatten).flatten
    let s0 := initX 4 2 none tasks
    let (s, evs) := crossRun s0 sched []
    let sentX := evs.filterMap fun e => match e with | .send _ _ c => some c | _ => none
    pure (joinSp (sentX.map toString) ++ s!" | keeps={cur s.file.data s.off}" ++ (if checkX xchk0 evs then "" else " bad"))
  else
    let tasks : List (List Sec) := (tasksOf 0).map (·.2)
    let sched : List Nat := (phases.mapIdx fun i (_, ts) =>
      let ids := idsOf i 0
      let rounds := (ts.map steps).sum + 2
      (List.replicate rounds ids).flatten).flatten
    let evs := run (init tasks) sched
    let s := after (init tasks) sched
    pure (joinSp ((sent evs).map toString) ++ s!" | keeps={s.counter}" ++ (if check chk0 evs then "" else " bad"))

/-- one terminal of a `retry` case: tasks with their operations (exchanges each), `fails` attempts that failed
before sending — charged to the first operation of the first task (by `retries_total` the counters do not depend
on who failed when) —, run round-robin until everybody is done -/
def retryTerm (j : Json) : Option String := do
  let tasks ← (← fArr j "tasks").mapM natList
  let fails ← fNat j "fails"
  let ops : List (List Op) := tasks.mapIdx fun t ns => ns.mapIdx fun i n =>
    ({ n := n, fails := if t == 0 && i == 0 then List.replicate fails 0 else [] } : Op)
  let secs := ops.map opSections
  let steps := (secs.map fun ss => (ss.map fun x => x.n * 2 + 2).sum).sum
  let sched := (List.replicate (steps + 1) (List.range secs.length)).flatten
  let evs := run (init secs) sched
  pure (joinSp ((sent evs).map toString) ++ (if check chk0 evs then "" else " bad"))

def step' (j : Json) : Option String := do
  let op ← fStr j "op"
  match op with
  | "cycle" =>
    let c0 ← fNat j "c0"
    let n ← fNat j "n"
    pure (joinSp ((counters c0 n).map toString))
  | "inproc" =>
    let tasks ← (← fArr j "tasks").mapM secList
    let sched ← (← fArr j "sched").mapM natList
    pure (inproc tasks sched)
  | "cross" =>
    let size ← fNat j "size"
    let off ← fNat j "off"
    let file ← match field j "file" with
      | some .null => pure none
      | some f => (natList f).map some
      | none => none
    let tasks ← (← fArr j "tasks").mapM fun p => do (← jArr p).mapM secList
    let sched ← (← fArr j "sched").mapM fun e => do
      match ← natList e with
      | [p, t] => pure (p, t)
      | _ => none
    pure (cross size off file tasks sched)
  | "hist" => hist j
  | "retry" =>
    let ts ← (← fArr j "terms").mapM retryTerm
    pure (" || ".intercalate ts)
  | "addr" =>
    let no ← fNat j "no"
    pure (if lockCtorOk Consts.addrLo Consts.addrHi no then "ok" else "assert")
  | _ => none

def main : IO Unit := driverMain step'
