import Ebv.Driver.Io
import Ebv.Model.Collect
open Ebv Ebv.Io Ebv.Collect Lean

def showErr : Err → String
  | .struct => "struct-error" | .index => "index-error" | .key => "key-error"

def showVals (vs : List Int) : String := "(" ++ ",".intercalate (vs.map toString) ++ ")"

def showFmtVals (f : Fmt) (vs : List Int) : String :=
  match f, vs with
  | .fixed, [v] => if v.natAbs < 2 ^ 52 then showVals vs else "(big)"
  | _, _ => showVals vs

def getDecl (j : Json) : Option Decl := do
  match ← jArr j with
  | [n, m, f] => pure ⟨← jNat n, ← jNat m, ← parseFmt (← jStr f)⟩
  | _ => none

def getProg (j : Json) : Option Prog := do
  let mro ← (← fArr j "mro").mapM fun c => do (← jArr c).mapM getDecl
  pure ⟨← fNat j "id", mro⟩

def getAttrs (j : Json) : Option (List (List MapAttr)) := do
  (← jArr j).mapM fun c => do
    (← jArr c).mapM fun a => do
      match ← jArr a with
      | [x, y] => pure (⟨← jNat x, ← jNat y⟩ : MapAttr)
      | _ => none

def getSet (j : Json) : Option (Nat × Nat × List Int) := do
  match ← jArr j with
  | [a, b, c] => pure (← jNat a, ← jNat b, ← (← jArr c).mapM jInt)
  | _ => none

def getPair (j : Json) : Option (Nat × Nat) := do
  match ← jArr j with
  | [a, b] => pure (← jNat a, ← jNat b)
  | _ => none

def fmtOf (s : St) (pid name : Nat) : Fmt :=
  match (findProg s.progs pid).bind (resolve · name) with
  | some d => d.fmt
  | none => .fixed

def showGet (f : Fmt) : GetRes → String
  | .selfRef => "self"
  | .val vs => showFmtVals f vs
  | .err e => showErr e

/-- devices in a group that is no EBPF object (or in none): values live in the device's own `__dict__` -/
def dictSet (d : List ((Nat × Nat) × List Int)) (k : Nat × Nat) (v : List Int) : List ((Nat × Nat) × List Int) :=
  (k, v) :: d.filter (·.1 != k)

def step (j : Json) : Option String := do
  let progs ← (← fArr j "progs").mapM getProg
  let attrs ← getAttrs (← field j "mapmro")
  let sets ← (← fArr j "sets").mapM getSet
  let reads ← (← fArr j "reads").mapM getPair
  let kind ← match ← fStr j "group" with
    | "process" => some GroupKind.loaded
    | "plain" => some GroupKind.plain
    | "none" => some GroupKind.none
    | _ => none
  match kind with
  | .loaded =>
    let found := simDiscover attrs
    let s0 := mkSt found progs
    let (s, errs) := s0.run (sets.map fun (p, n, vs) => .pySet p n vs)
    let maps := ",".intercalate ((initMaps found progs).map fun (a, sz) => s!"{a.attr}:{a.map}:{sz}")
    let oks := ",".intercalate (found.map fun a => if layoutOkB (triples a.map progs) then "ok" else "overlap")
    let pos := joinSp (reads.map fun k =>
      let p := do
        let d ← (findProg s.progs k.1).bind (resolve · k.2)
        if found.any (·.map = d.map) then positionOf (triples d.map s.progs) k else none
      s!"{k.1}.{k.2}@" ++ (match p with | some p => toString p | none => "-"))
    let es := ",".intercalate (errs.map fun | none => "ok" | some e => showErr e)
    let bytes := ",".intercalate (s.arrays.map fun (m, d) => s!"{m}:" ++ hexOfBytes d)
    let vals := joinSp (reads.map fun k => showGet (fmtOf s k.1 k.2) (devGet .loaded none (s.pyGet k.1 k.2)))
    pure s!"maps={maps} layout={oks} pos={pos} ops={es} bytes={bytes} reads={vals}"
  | k =>
    let d := sets.foldl (fun d (p, n, vs) => dictSet d (p, n) vs) []
    let s0 : St := ⟨progs, []⟩
    let vals := joinSp (reads.map fun r =>
      showGet (fmtOf s0 r.1 r.2) (devGet k ((d.find? (·.1 == r)).map (·.2)) (.error .key)))
    pure s!"maps= layout= pos= ops={",".intercalate (sets.map fun _ => "ok")} bytes= reads={vals}"

def main : IO Unit := driverMain step
