import Ebv.Driver.Io
import Ebv.Model.Collect
open Ebv Ebv.Io Ebv.Collect Lean

def showErr : Err → String
  | .struct => "struct-error" | .index => "index-error" | .key => "key-error"

def showVals (vs : List Int) : String := "(" ++ ",".intercalate (vs.map toString) ++ ")"

def showFmtVals (f : Fmt) (vs : List Int) : String :=
  match f, vs with
  | .fixed, [v] => if v.natAbs < 2 ^ 52 then showVals vs else "(big)"
  | _, _ => showVals vs

def getDecl (j : Json) : Option Decl := do
  match ← jArr j with
  | [n, m, f] => pure ⟨← jNat n, ← jNat m, ← parseFmt (← jStr f)⟩
  | _ => none

def getProg (j : Json) : Option Prog := do
  let mro ← (← fArr j "mro").mapM fun c => do (← jArr c).mapM getDecl
  pure ⟨← fNat j "id", mro⟩

def getAttrs (j : Json) : Option (List (List MapAttr)) := do
  (← jArr j).mapM fun c => do
    (← jArr c).mapM fun a => do
      match ← jArr a with
      | [x, y] => pure (⟨← jNat x, ← jNat y⟩ : MapAttr)
      | _ => none

def getSet (j : Json) : Option (Nat × Nat × List Int) := do
  match ← jArr j with
  | [a, b, c] => pure (← jNat a, ← jNat b, ← (← jArr c).mapM jInt)
  | _ => none

def getPair (j : Json) : Option (Nat × Nat) := do
  match ← jArr j with
  | [a, b] => pure (← jNat a, ← jNat b)
  | _ => none

def fmtOf (s : St) (pid name : Nat) : Fmt :=
  match (findProg s.progs pid).bind (resolve · name) with
  | some d => d.fmt
  | none => .fixed

def showGet (f : Fmt) : GetRes → String
  | .selfRef => "self"
  | .val vs => showFmtVals f vs
  | .err e => showErr e

/-- devices in a group that is no EBPF object (or in none): values live in the device's own `__dict__` -/
def dictSet (d : List ((Nat × Nat) × List Int)) (k : Nat × Nat) (v : List Int) : List ((Nat × Nat) × List Int) :=
  (k, v) :: d.filter (·.1 != k)

def showRes (f : Fmt) : Except Err (List Int) → String
  | .ok vs => showFmtVals f vs
  | .error e => showErr e

def worldFmt (w : World) (pid name : Nat) : Fmt :=
  match (w.objOf pid).bind fun o => (findProg o.progs pid).bind (resolve · name) with
  | some d => d.fmt
  | none => .fixed

/-- an earlier group of the process.  A process group is created (its devices are laid out in its shared array) and
written from Python; in a plain group a written DeviceVar is an entry of the device's own `__dict__` -/
def preStep (w : World) (j : Json) : Option (World × String) := do
  let sets ← (← fArr j "sets").mapM getSet
  if (← fStr j "group") == "plain" then
    let w' := sets.foldl (fun (acc : World) (p, n, vs) => { acc with dicts := ((p, n), (vs.headD 0).toNat) :: acc.dicts }) w
    return (w', "plain ops=" ++ ",".intercalate (sets.map fun _ => "ok"))
  let progs ← (← fArr j "progs").mapM getProg
  let attrs ← getAttrs (← field j "mapmro")
  let found := simDiscover attrs
  let w1 := w.create (← fNat j "main") found progs
  let reads ← (← fArr j "reads").mapM getPair
  let maps := ",".intercalate ((initMaps found progs).map fun (a, sz) => s!"{a.attr}:{a.map}:{sz}")
  let pos := joinSp (reads.map fun k => s!"{k.1}.{k.2}@" ++ (match w1.dicts.get k with | some p => toString p | none => "-"))
  let (w2, es) := sets.foldl (fun (acc : World × List String) (p, n, vs) =>
    match acc.1.pySet p n vs with
    | .ok w' => (w', acc.2 ++ ["ok"])
    | .error e => (acc.1, acc.2 ++ [showErr e])) (w1, [])
  pure (w2, s!"maps={maps} pos={pos} ops={",".intercalate es}")

def step (j : Json) : Option String := do
  let progs ← (← fArr j "progs").mapM getProg
  let attrs ← getAttrs (← field j "mapmro")
  let sets ← (← fArr j "sets").mapM getSet
  let reads ← (← fArr j "reads").mapM getPair
  let kind ← match ← fStr j "group" with
    | "process" => some GroupKind.loaded
    | "plain" => some GroupKind.plain
    | "none" => some GroupKind.none
    | _ => none
  match kind with
  | .loaded =>
    let found := simDiscover attrs
    -- the groups created earlier in the same process (devices of this group may have been in them)
    let pres ← match field j "pre" with
      | some p => jArr p
      | none => pure []
    let mut w : World := World.empty
    let mut preLines : List String := []
    for pj in pres do
      let (w', l) ← preStep w pj
      w := w'
      preLines := preLines ++ [l]
    let s0 := mkStFrom w.dicts found progs
    let (s, errs) := s0.run (sets.map fun (p, n, vs) => .pySet p n vs)
    let maps := ",".intercalate ((initMaps found progs).map fun (a, sz) => s!"{a.attr}:{a.map}:{sz}")
    let oks := ",".intercalate (found.map fun a => if layoutOkB (triples a.map progs) then "ok" else "overlap")
    let pos := joinSp (reads.map fun k =>
      let p := do
        let d ← (findProg s.progs k.1).bind (resolve · k.2)
        if found.any (·.map = d.map) then s.dicts.get k else none
      s!"{k.1}.{k.2}@" ++ (match p with | some p => toString p | none => "-"))
    let es := ",".intercalate (errs.map fun | none => "ok" | some e => showErr e)
    let bytes := ",".intercalate (s.arrays.map fun (m, d) => s!"{m}:" ++ hexOfBytes d)
    let vals := joinSp (reads.map fun k => showGet (fmtOf s k.1 k.2) (devGet .loaded none (s.pyGet k.1 k.2)))
    let line := s!"maps={maps} layout={oks} pos={pos} ops={es} bytes={bytes} reads={vals}"
    if pres.isEmpty then return line
    let w1 := w.create 0 found progs
    let prereads ← match field j "prereads" with
      | some p => (← jArr p).mapM getPair
      | none => pure []
    let pv := joinSp (prereads.map fun k => showRes (worldFmt w1 k.1 k.2) (w1.pyGet k.1 k.2))
    pure (line ++ " pre=" ++ " ; ".intercalate preLines ++ " prereads=" ++ pv)
  | k =>
    let d := sets.foldl (fun d (p, n, vs) => dictSet d (p, n) vs) []
    let s0 : St := ⟨progs, [], []⟩
    let vals := joinSp (reads.map fun r =>
      showGet (fmtOf s0 r.1 r.2) (devGet k ((d.find? (·.1 == r)).map (·.2)) (.error .key)))
    pure s!"maps= layout= pos= ops={",".intercalate (sets.map fun _ => "ok")} bytes= reads={vals}"

def main : IO Unit := driverMain step
