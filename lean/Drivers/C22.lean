import Ebv.Driver.Io
import Ebv.Model.Dispatch
open Ebv Ebv.Io Ebv.Dispatch Lean

def showAction : Action → String
  | .pass => "PASS" | .tx => "TX" | .drop => "DROP" | .run => "RUN"

def showObs : Obs → String
  | .ran e => s!"ran{if e then 1 else 0}" | .passive e => s!"passive{if e then 1 else 0}"
  | .passed => "passed" | .none => "-"

def parseEv (j : Json) : Option Ev := do
  let a ← jArr j
  match a with
  | [k, i, o] =>
    let k ← jStr k
    if k == "d" then pure (.deliver (← jNat i) (← jBool o))
    else if k == "l" then pure (.lose (← jNat i))
    else if k == "i" then pure .inject
    else none
  | _ => none

def step (j : Json) : Option String := do
  let op ← fStr j "op"
  if op == "dispatch" then
    let p ← fBytes j "pkt"
    let cs ← (← fArr j "counters").mapM jNat
    let dc ← fNat j "dropcounter"
    let regs ← (← fArr j "reg").mapM jNat
    let rnd ← fNat j "rnd"
    let o := dispatch p cs dc (fun g => regs.contains g) rnd
    pure s!"{showAction o.action} {hexOfBytes o.packet} {joinSp (o.counters.map toString)} {o.dropcounter}"
  else if op == "hist" then
    let c ← fNat j "c"
    let reg ← fBool j "reg"
    let evs ← (← fArr j "events").mapM parseEv
    let (s, os) := runHist reg ⟨c, []⟩ evs
    let fl := s.flight.map fun f => s!"{f.idx}:{if f.enabled then 1 else 0}"
    pure s!"{s.c} [{joinSp fl}] {joinSp (os.map showObs)}"
  else none

def main : IO Unit := driverMain step
