import Ebv.Driver.Io
import Ebv.Model.Ebpf
open Ebv Ebv.Io Ebv.Ebpf Lean

def parseInsn (j : Json) : Option Insn := do
  match ← jArr j with
  | [a, b, c, d, e] => pure ⟨← jNat a, ← jNat b, ← jNat c, ← jInt d, ← jInt e⟩
  | _ => none

/-- {"insns":[[op,dst,src,off,imm],…],"regs":[r0..r10],"mem":[[addr,"hex"],…],"watch":[[addr,n],…],"fuel":N} -/
def step (j : Json) : Option String := do
  let prog ← (← fArr j "insns").mapM parseInsn
  let regs ← (← fArr j "regs").mapM jNat
  let memInit ← (← fArr j "mem").mapM fun m => do
    match ← jArr m with
    | [a, h] => pure (← jNat a, ← jBytes h)
    | _ => none
  let watch ← (← fArr j "watch").mapM fun m => do
    match ← jArr m with
    | [a, n] => pure (← jNat a, ← jNat n)
    | _ => none
  let fuel := (fNat j "fuel").getD 10000
  let mem0 : W → BitVec 8 := fun a =>
    memInit.foldl (fun acc (base, bs) =>
      let o := a.toNat - base
      if base ≤ a.toNat ∧ o < bs.length then BitVec.ofNat 8 (bs.getD o 0).toNat else acc) 0
  let s0 : State := { regs := fun k => BitVec.ofNat 64 (regs.getD k 0), mem := mem0, pc := 0 }
  let showS (tag : String) (s : State) : String :=
    let rs := (List.range 11).map fun k => toString (s.regs k).toNat
    let ms := watch.map fun (a, n) => hexOfBytes ((List.range n).map fun i => UInt8.ofNat (s.mem (BitVec.ofNat 64 (a + i))).toNat)
    s!"{tag} {joinSp rs} | {joinSp ms}"
  match run prog fuel s0 with
  | .exit r s => pure (showS s!"exit {r.toNat}" s)
  | .fell s => pure (showS "fell" s)
  | .call id s => pure (showS s!"call {id}" s)
  | .bad => pure "bad"
  | .fuel => pure "fuel"

def main : IO Unit := driverMain step
