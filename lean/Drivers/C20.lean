import Ebv.Driver.Io
import Ebv.Model.Fmmu
open Ebv Ebv.Io Ebv.Fmmu Lean

def showTable (t : Table) : String :=
  ",".intercalate (t.map fun | none => "_" | some a => toString a)

def showWr (w : Wr) : String :=
  let fmt := if w.fields.length = 1 then "B" else "IHBBHBBB3x"
  s!"w{w.addr}:{fmt}:" ++ ",".intercalate (w.fields.map toString)

def showOutcome : Outcome → String
  | .entered i => s!"in{i}"
  | .failed .valueError => "value-error"
  | .failed .indexError => "index-error"
  | .busError => "bus-error"
  | .exited => "out"
  | .noop => "noop"

def showLine (o : String) (ws : List Wr) (t : Table) : String :=
  o ++ ";" ++ (if ws.isEmpty then "-" else "+".intercalate (ws.map showWr)) ++ ";" ++ showTable t

def parseMode (m : String) : Option ExitMode :=
  match m with
  | "n" => some .normal | "e" => some .exc | "b" => some .busFail | _ => none

def parseOp (j : Json) : Option Op := do
  match ← jArr j with
  | [k, w, l, f] =>
    if (← jStr k) != "e" then none
    pure (.enter (← jBool w) (← jNat l) (← jBool f))
  | [k, i, m] =>
    if (← jStr k) != "x" then none
    pure (.exit (← jNat i) (← parseMode (← jStr m)))
  | _ => none

/-! `SyncGroupBase.map_fmmu`: an AsyncExitStack that enters the OUT mapping, then the IN
mapping of the terminal; expanded here into model operations (the stack leaves in reverse
order; a failing enter unwinds what was entered by throwing the exception into it). -/
inductive GOp where
  | enter (outBase inBase : Option Nat)
  | exit (k : Nat) (mode : ExitMode)

def jOptNat (j : Json) : Option (Option Nat) :=
  if j.isNull then some none else (jNat j).map some

def parseGOp (j : Json) : Option GOp := do
  match ← jArr j with
  | [k, a, b] =>
    match ← jStr k with
    | "G" => pure (.enter (← jOptNat a) (← jOptNat b))
    | "X" => pure (.exit (← jNat a) (← parseMode (← jStr b)))
    | _ => none
  | _ => none

/-- leave the mappings with the given slot indices, last entered first -/
def leave (cfg : Cfg) (mode : ExitMode) : St → List Int → St × List Wr
  | s, [] => (s, [])
  | s, i :: is =>
    let k := s.live.findIdx (·.index == i)
    let r := step cfg s (.exit k mode)
    let (s', ws) := leave cfg mode r.1 is
    (s', r.2.2 ++ ws)

def gstep (cfg : Cfg) (s : St) (groups : List (List Int)) : GOp → St × List (List Int) × String × List Wr
  | .enter ob ib =>
    let wanted := (ob.map fun b => (true, b)).toList ++ (ib.map fun b => (false, b)).toList
    let rec go (s : St) (mine : List Int) (ws : List Wr) : List (Bool × Nat) → St × List (List Int) × String × List Wr
      | [] => (s, groups ++ [mine.reverse], "in", ws)
      | (w, b) :: rest =>
        let r := step cfg s (.enter w b false)
        match r.2.1 with
        | .entered i => go r.1 (i :: mine) (ws ++ r.2.2) rest
        | o =>
          let (s', ws') := leave cfg .exc r.1 mine
          (s', groups, showOutcome o, ws ++ r.2.2 ++ ws')
    go s [] [] wanted
  | .exit k mode =>
    match groups[k]? with
    | none => (s, groups, "noop", [])
    | some mine =>
      let (s', ws) := leave cfg mode s mine.reverse
      (s', groups.eraseIdx k, "out", ws)

def gtrace (cfg : Cfg) : St → List (List Int) → List GOp → List String
  | _, _, [] => []
  | s, g, op :: ops =>
    let (s', g', o, ws) := gstep cfg s g op
    showLine o ws s'.table :: gtrace cfg s' g' ops

def cfgOf (j : Json) : Option Cfg := do
  match ← (← jArr j).mapM jNat with
  | [a, b, c, d] => some ({ outOff := a, outSz := b, inOff := c, inSz := d } : Cfg)
  | _ => none

/-- an operation tagged with its terminal: `[ti, "e", write, logical, busfail]` / `[ti, "x", k, mode]` -/
def parseBusOp (j : Json) : Option (Nat × Op) := do
  match ← jArr j with
  | ti :: rest => pure (← jNat ti, ← parseOp (Json.arr rest.toArray))
  | _ => none

/-- several terminals, each initialised (`Terminal.initialize`) and then used in any interleaving -/
def busCase (j : Json) (bus : List Json) : Option String := do
  let ts ← bus.mapM fun t => do
    pure (← fNat t "n", ← cfgOf (← field t "cfg"))
  let ops ← (← fArr j "ops").mapM parseBusOp
  let inits := ts.map fun t => showLine "init" (initWrites t.1) (init t.1).table
  let tr := busTrace (busInit ts) ops
  pure (" | ".intercalate (inits ++ tr.map fun (i, o, ws, t) => s!"t{i}:" ++ showLine (showOutcome o) ws t))

/-- an event of mappings started concurrently: `["b", write, logical]`, `["a", id, ok]`, `["x", id, "n" | "e"]` -/
def parseEv (j : Json) : Option Ev := do
  match ← jArr j with
  | [k, a, b] =>
    match ← jStr k with
    | "b" => pure (.begin (← jBool a) (← jNat b))
    | "a" => pure (.ack (← jNat a) ((jBool b).getD false))      -- "c": cancelled while waiting = the await raised
    | "x" => pure (.leave (← jNat a) ((← jStr b) == "e"))
    | _ => none
  | _ => none

def showCOut : COut → String
  | .waiting => "wait"
  | .done o => showOutcome o

def step' (j : Json) : Option String := do
  match field j "bus" with
  | some b => if !b.isNull then return ← busCase j (← jArr b)
  | none => pure ()
  if (fBool j "conc").getD false then
    let evs ← (← fArr j "evs").mapM parseEv
    let tr := ctrace (← cfgOf (← field j "cfg")) (cinit (← fNat j "n")) evs
    return " | ".intercalate (tr.map fun (o, ws, t) => showLine (showCOut o) ws t)
  let n ← fNat j "n"
  let cfg ← match ← (← fArr j "cfg").mapM jNat with
    | [a, b, c, d] => some ({ outOff := a, outSz := b, inOff := c, inSz := d } : Cfg)
    | _ => none
  if (fBool j "groups").getD false then
    let ops ← (← fArr j "ops").mapM parseGOp
    pure (" | ".intercalate (gtrace cfg (init n) [] ops))
  else
    let ops ← (← fArr j "ops").mapM parseOp
    let tr := trace cfg (init n) ops
    pure (" | ".intercalate (tr.map fun (o, ws, t) => showLine (showOutcome o) ws t))

def main : IO Unit := driverMain step'
