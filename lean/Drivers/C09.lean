import Ebv.Driver.Io
import Ebv.Model.HashVars
open Ebv Ebv.Io Ebv.HashVars Lean

def parseFmt (s : String) : Option Fmt :=
  match s with
  | "b" => some .b | "B" => some .B | "h" => some .h | "H" => some .H
  | "i" => some .i | "I" => some .I | "q" => some .q | "Q" => some .Q
  | _ => none

def parseHFmt (s : String) : Option HFmt := if s == "x" then some .fixed else (parseFmt s).map .plain

def fmts (js : List Json) : Option (List Fmt) := js.mapM fun j => do parseFmt (← jStr j)
def ints (j : Json) : Option (List Int) := do (← jArr j).mapM jInt

def showTuple (vs : List Int) : String := "(" ++ ",".intercalate (vs.map toString) ++ ")"
def showNats (vs : List Nat) : String := ",".intercalate (vs.map toString)

def showOut : Out → String
  | .ok => "ok" | .structError => "struct-error" | .full => "full" | .keyError => "key-error"
  | .runtimeError => "runtime-error" | .osError => "os-error"
  | .value v => "value " ++ showTuple v
  | .keys ks => "keys " ++ " ".intercalate (ks.map showTuple)
  | .r0 c => s!"r0 {c}"
  | .found v => "found " ++ showTuple v
  | .els => "else"

def showHOut : HOut → String
  | .ok => "ok" | .structError => "struct-error" | .keyError => "key-error" | .indexError => "index-error"
  | .exit => "exit" | .value v => s!"value {v}"

def showSOut : SOut → String
  | .loaded o => showHOut o
  | .dict o => showOut o
  | .hvar o => showHOut o

def showPOut : POut → String
  | .sys o => showSOut o
  | .held vs ks => "held V:" ++ ";".intercalate (vs.map showTuple) ++ " K:" ++ ";".intercalate (ks.map showTuple)
  | .ok => "ok" | .structError => "struct-error" | .noObject => "none"
  | .stored o => showOut o

def step (j : Json) : Option String := do
  let keyF ← fmts (← fArr j "key")
  let valF ← fmts (← fArr j "value")
  if !(layoutOk 0 keyF && layoutOk 0 valF) then return "asm-error"
  let locals ← fmts (← fArr j "locals")
  let vars ← (← fArr j "vars").mapM fun v => do
    match ← jArr v with
    | [f, d, fl] => pure ({ fmt := ← parseHFmt (← jStr f), default := ← jInt d, defaultIsFloat := ← jBool fl } : HVar)
    | _ => none
  let D : DictDecl := { keyFmts := keyF, valFmts := valF, depth0 := localsDepth locals, maxEntries := ← fNat j "size" }
  let cst ← field j "const"
  let ck ← ints (← field cst "k")
  let cv ← ints (← field cst "v")
  let layout := s!"key@-{D.keyDepth} value@-{D.valDepth} K={D.K} V={D.V} koff={showNats (offsets 0 keyF)} voff={showNats (offsets 0 valF)}"
  let stack0 := Ebv.Bytes.zeros stackSize
  -- program 0 is created and loaded first; `["new", j]` creates program j (again), `["on", j, op]` is `op` on program j
  let (sys0, lres) := sysStep D stack0 vars emptySys (.new 0)
  let mut outs : List String := [layout ++ " load=" ++ showSOut lres]
  let mut sys : PState := (sys0, emptyHeap)
  for o in ← fArr j "ops" do
    let a0 ← jArr o
    let kind0 ← jStr (← a0.head?)
    if kind0 == "new" then
      let (s', out) := pStep D stack0 vars sys (.sys (.new (← jNat (← a0[1]?))))
      sys := s'
      outs := outs ++ ["new " ++ showPOut out]
    else
      let (inst, a) ← (if kind0 == "on" then do pure (← jNat (← a0[1]?), ← jArr (← a0[2]?)) else pure (0, a0) : Option (Nat × List Json))
      let kind ← jStr (← a.head?)
      let arg (i : Nat) : Option Json := a[i]?
      -- operations on the objects Python kept
      let pop : Option POp ← (match kind with
        | "recheck" => pure (some .recheck)
        | "py_mod" => do
          let i ← jNat (← arg 2)
          let m ← jNat (← arg 3)
          let x ← jInt (← arg 4)
          pure (some (if (← jStr (← arg 1)) == "v" then .modVal i m x else .modKey i m x))
        | "py_store" => do pure (some (.store inst (← ints (← arg 1)) (← jNat (← arg 2))))
        | _ => pure none : Option (Option POp))
      if let some p := pop then
        let (s', out) := pStep D stack0 vars sys p
        sys := s'
        outs := outs ++ [showPOut out]
        continue
      let dop : Option Op ← (match kind with
        | "py_set" => do pure (some (.pySet (← ints (← arg 1)) (← ints (← arg 2))))
        | "py_get" => do pure (some (.pyGet (← ints (← arg 1))))
        | "py_del" => do pure (some (.pyDel (← ints (← arg 1))))
        | "py_pop" => do pure (some (.pyPop (← ints (← arg 1))))
        | "py_iter" => pure (some .pyIter)
        | "pr_update" => do pure (some (.prUpdate (← ints (← arg 1)) (← ints (← arg 2)) (← jNat (← arg 3))))
        | "pr_const" => pure (some (.prUpdate ck cv 0))
        | "pr_lookup" => do pure (some (.prLookup (← ints (← arg 1))))
        | "pr_modify" => do pure (some (.prModify (← ints (← arg 1)) (← ints (← arg 2))))
        | _ => pure none : Option (Option Op))
      let sop : SOp ← (match dop with
        | some op => pure (.dict inst op)
        | none => do
          let hop : HOp ← (match kind with
            | "hv_load" => pure .load
            | "hv_py_get" => do pure (.pyGet (← jNat (← arg 1)))
            | "hv_py_set" => do pure (.pySet (← jNat (← arg 1)) (← jInt (← arg 2)) (← jBool (← arg 3)))
            | "hv_pr_get" => do pure (.prGet (← jNat (← arg 1)))
            | "hv_pr_set" => do pure (.prSet (← jNat (← arg 1)) (← jInt (← arg 2)))
            | "hv_pr_add" => do pure (.prAdd (← jNat (← arg 1)) (← jInt (← arg 2)))
            | _ => none : Option HOp)
          pure (.hvar inst hop) : Option SOp)
      let (s', out) := pStep D stack0 vars sys (.sys sop)
      sys := s'
      outs := outs ++ [showPOut out]
  pure (" | ".intercalate outs)

def main : IO Unit := driverMain step
