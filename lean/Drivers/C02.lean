import Ebv.Driver.Io
import Ebv.Model.GenFixed
import Ebv.Model.FixedStore
open Ebv Ebv.Io Ebv.Ebpf Ebv.Gen Ebv.GenFixed Lean
/-! Line driver of the fixed-point layer.  `showInsn`, `showErr`, `showTree`, `parseView`, `parseFmt` are copies of
the definitions in Drivers/C01.lean (a driver cannot be imported). -/

def parseView : String → Option View
  | "r" => some .r | "sr" => some .sr | "w" => some .w | "sw" => some .sw | _ => none

def parseFmt : String → Option Fmt
  | "B" => some .B | "H" => some .H | "I" => some .I | "Q" => some .Q
  | "b" => some .b | "h" => some .h | "i" => some .i | "q" => some .q | _ => none

def parseFOp : String → Option FOp
  | "+" => some .add | "-" => some .sub | "*" => some .mul | "/" => some .truediv
  | "//" => some .floordiv | "%" => some .mod | _ => none

partial def parseFExpr (j : Json) : Option FExpr := do
  match ← jArr j with
  | [k, a] =>
    let k ← jStr k
    if k == "c" then pure (.int (← jInt a))
    else if k == "d" then pure (.dec (← jInt a))
    else if k == "v" then pure (.var (← jStr a))
    else if k == "x" then pure (.xreg (← jNat a))
    else pure (.reg (← parseView k) (← jNat a))
  | [k, a, b] => pure (.bin (← parseFOp (← jStr k)) (← parseFExpr a) (← parseFExpr b))
  | _ => none

def parseFDest (j : Json) : Option FDest := do
  match ← jArr j with
  | [k, a] =>
    let k ← jStr k
    if k == "v" then pure (.var (← jStr a))
    else if k == "x" then pure (.xreg (← jNat a))
    else pure (.reg (← parseView k) (← jNat a))
  | _ => none

def parseFStmt (j : Json) : Option FStmt := do
  match ← jArr j with
  | [k, d, e] => if (← jStr k) == "set" then pure (.set (← parseFDest d) (← parseFExpr e)) else none
  | _ => none

def parseFVar (j : Json) : Option FVarDecl := do
  match ← jArr j with
  | [n, f, k] =>
    let f ← jStr f
    let k ← jStr k
    let fmt ← (if f == "x" then some none else (parseFmt f).map some)
    pure ⟨← jStr n, fmt, if k == "g" then .glob else .loc⟩
  | _ => none

def parseFProg (j : Json) : Option FProg := do
  pure ⟨← (← fArr j "owned").mapM jNat, ← (← fArr j "vars").mapM parseFVar, ← (← fArr j "stmts").mapM parseFStmt⟩

def showInsn (i : Insn) : String := s!"{i.op}:{i.dst}:{i.src}:{i.off}:{i.imm}"

def showErr : AsmError → String
  | .asm => "asm-error"
  | .other t => "other:" ++ t

partial def showTree : Expr → String
  | .const v => s!"c{v}"
  | .reg no lg sg => (if sg then "s" else "") ++ (if lg then "r" else "w") ++ toString no
  | .bin op l r sg k =>
    let nm := match k with | .sum => "sum" | .and => "and" | .plain => op.name
    s!"({nm} {showTree l} {showTree r} {if sg then "s" else "u"})"
  | .neg a => s!"(neg {showTree a})"
  | .abs a => s!"(abs {showTree a})"
  | .mem f a => s!"(mem {f.name} {showTree a})"

def showFVal : FVal → String
  | .int v => s!"i{v}"
  | .dec n => s!"d{n}"
  | .ex e f => (if f then "F:" else "I:") ++ showTree e

def sortJoin (c : List String) : String :=
  let c := c.toArray.qsort (· < ·) |>.toList
  if c.isEmpty then "-" else ",".intercalate c

def stepProg (j : Json) : Option String := do
  let p ← parseFProg j
  let env := p.env
  match emitFProg p with
  | .error e => pure ("err " ++ showErr e)
  | .ok code =>
    let trees := p.stmts.map fun s => match s with
      | .set _ e => match elabF env e with | .ok v => showFVal v | .error _ => "?"
    let cls := p.stmts.map fun s =>
      let c1 := match compileF env s with | .ok c => c.classes | .error _ => []
      let c3 := if fixedToShort env s then ["fixed-to-short"] else []
      sortJoin (c1 ++ c3)
    pure ("ok " ++ joinSp (code.map showInsn) ++ " | " ++ " ; ".intercalate trees ++ " | " ++ " ; ".intercalate cls)

/-- `a < b` on the real classes: Python calls `a.__lt__(b)`, or, for a number on the left, the reflected `b.__gt__(a)`;
either way `comparison` sees `self` = the expression, `value` = the other side -/
def stepCmp (j : Json) (ab : List Json) : Option String := do
  let p ← parseFProg j
  match ab with
  | [a, b] =>
    let a ← parseFExpr a
    let b ← parseFExpr b
    let r : Except AsmError String := do
      let x ← elabF p.env a
      let y ← elabF p.env b
      let (s, v) ← (match x, y with
        | .ex e f, _ => do pure ((⟨e, f⟩ : FE), ← ensureF y)
        | _, .ex e f => do pure ((⟨e, f⟩ : FE), ← ensureF x)
        | _, _ => unmodelled)
      let (l, r) := cmpScale s v
      pure (showTree l ++ " ; " ++ showTree r)
    match r with
    | .ok s => pure ("ok " ++ s)
    | .error e => pure ("err " ++ showErr e)
  | _ => none

def showDy (q : Rat) : String := s!"{q.num}/{q.den}"

/-- checksum of the float model over `n = lo, lo + step, … < hi`: the double nearest to `n/10^5` (as a fraction), the
stored constant through both formulations, the value Python reads back -/
def sweep (lo hi step : Int) : String := Id.run do
  let mut h : Nat := 7
  let mut bad : Nat := 0
  let mut n := lo
  let M : Nat := 2305843009213693951
  while n < hi do
    let d := F64.roundToDouble (mkRat n F64.B)
    let c := F64.decConst n
    let cq := F64.decConstQ n
    if c != n || cq != n then bad := bad + 1
    h := (h * 1000003 + d.num.toNat + 3 * (-d.num).toNat + 7 * d.den + 11 * c.natAbs + 13 * cq.natAbs) % M
    n := n + step
  return s!"{h} {bad}"

/-! history of Python-side assignments / program runs / reads over several instances (`Ebv.FixedStore`) -/
def parsePair (j : Json) : Option (Nat × Int) := do
  match ← jArr j with
  | [a, b] => pure (← jNat a, ← jInt b)
  | _ => none

def parsePairN (j : Json) : Option (Nat × Nat) := do
  match ← jArr j with
  | [a, b] => pure (← jNat a, ← jNat b)
  | _ => none

/-- (operation, what Python observes: nothing / the float read from an `x` variable / the integer read) -/
def parseHOp (j : Json) : Option (FixedStore.Op × Nat) := do
  match ← jArr j with
  | [k, i, v, n] => if (← jStr k) == "set" then pure (.set (← jNat i) (← jNat v) (← jInt n), 0) else none
  | [k, i, v] =>
    let k ← jStr k
    if k == "get" then pure (.get (← jNat i) (← jNat v), 1)
    else if k == "geti" then pure (.get (← jNat i) (← jNat v), 2)
    else if k == "write" then pure (.write (← jNat i) (← (← jArr v).mapM parsePair), 0)
    else none
  | _ => none

def stepHist (ops decl : List Json) : Option String := do
  let ops ← ops.mapM parseHOp
  let decl ← decl.mapM parsePairN
  let mut s : FixedStore.Store := fun _ _ => 0
  let mut out : List String := []
  for (op, k) in ops do
    s := FixedStore.step s op
    let seen := match op, k with
      | .get i v, 1 => showDy (FixedStore.read s i v) ++ " "
      | .get i v, 2 => toString (s i v) ++ " "
      | _, _ => ""
    out := out ++ [seen ++ ",".intercalate (decl.map fun (i, v) => toString (s i v))]
  pure (" ; ".intercalate out)

def step (j : Json) : Option String :=
  match fArr j "mops", fArr j "decl" with
  | some ops, some decl => stepHist ops decl
  | _, _ =>
  match fArr j "cmp" with
  | some ab => stepCmp j ab
  | none =>
    match fArr j "fl" with
    | some [a, b] => do
      let q := mkRat (← jInt a) (← jNat b)
      pure (showDy (F64.roundToDouble q) ++ " " ++ toString (F64.pyRound (F64.roundToDouble q)))
    | some _ => none
    | none =>
      match fArr j "sweep" with
      | some [a, b, c] => do pure (sweep (← jInt a) (← jInt b) (← jInt c))
      | some _ => none
      | none =>
        match fInt j "const" with
        | some n => pure s!"{F64.decConst n} {F64.decConstQ n} {F64.decTrunc n} {showDy (F64.pyGet (F64.decConst n))}"
        | none => stepProg j

def main : IO Unit := driverMain step
