import Ebv.Driver.Io
import Ebv.Model.Valve
open Ebv Ebv.Io Ebv.Valve Lean

def parseEv (j : Json) : Option Ev := do
  match ← jArr j with
  | [k] => match ← jStr k with
    | "r" => some .reset | "u" => some .update | _ => none
  | [k, v] => match ← jStr k with
    | "t" => pure (.setTarget (← jNat v)) | "a" => pure (.advance (← jNat v)) | _ => none
  | [k, o, c] => if (← jStr k) == "s" then pure (.switches (← jNat o) (← jNat c)) else none
  | _ => none

def showSt (s : St) : String :=
  s!"{ofBool s.coil} {s.target} {ofBool s.error} {s.lastGood}"

/-- group events: ["r",i] ["u",i] ["c"] ["t",i,v] ["s",i,o,c] ["a",d] -/
def parseGEv (j : Json) : Option GEv := do
  match ← jArr j with
  | [k] => if (← jStr k) == "c" then some .cycle else none
  | [k, v] => match ← jStr k with
    | "r" => pure (.reset (← jNat v)) | "u" => pure (.update (← jNat v)) | "a" => pure (.advance (← jNat v)) | _ => none
  | [k, i, v] => if (← jStr k) == "t" then pure (.setTarget (← jNat i) (← jNat v)) else none
  | [k, i, o, c] => if (← jStr k) == "s" then pure (.switches (← jNat i) (← jNat o) (← jNat c)) else none
  | _ => none

def memberOf (t0 : Int) (j : Json) : Option Member := do
  pure { cfg := { safeState := ← fBool j "safe", movingTime := ← fInt j "mt" },
         st := { now := t0, openSw := ← fNat j "open0", closedSw := ← fNat j "closed0", coil := ← fBool j "coil0",
                 target := 0, error := false, lastGood := 0 } }

/-- several valves in one slow sync group: after every event the state of every valve -/
def stepGroup (j : Json) : Option String := do
  let t0 ← fInt j "t0"
  let g ← (← fArr j "group").mapM (memberOf t0)
  let evs ← (← fArr j "events").mapM parseGEv
  pure (" | ".intercalate ((gtrace g evs).map fun ms => " / ".intercalate (ms.map fun u => showSt u.st)))

def step' (j : Json) : Option String := do
  if (field j "group").isSome then return ← stepGroup j
  let cfg : Cfg := { safeState := ← fBool j "safe", movingTime := ← fInt j "mt" }
  let s0 : St := { now := ← fInt j "t0", openSw := ← fNat j "open", closedSw := ← fNat j "closed",
                   coil := ← fBool j "coil", target := 0, error := false, lastGood := 0 }
  let evs ← (← fArr j "events").mapM parseEv
  match evs with
  | .reset :: _ => pure (" | ".intercalate ((trace cfg s0 evs).map showSt))
  | _ => none

def main : IO Unit := driverMain step'
