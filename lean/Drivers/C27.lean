import Ebv.Driver.Io
import Ebv.Model.Valve
open Ebv Ebv.Io Ebv.Valve Lean

def parseEv (j : Json) : Option Ev := do
  match ← jArr j with
  | [k] => match ← jStr k with
    | "r" => some .reset | "u" => some .update | _ => none
  | [k, v] => match ← jStr k with
    | "t" => pure (.setTarget (← jNat v)) | "a" => pure (.advance (← jNat v)) | _ => none
  | [k, o, c] => if (← jStr k) == "s" then pure (.switches (← jNat o) (← jNat c)) else none
  | _ => none

def showSt (s : St) : String :=
  s!"{ofBool s.coil} {s.target} {ofBool s.error} {s.lastGood}"

def step' (j : Json) : Option String := do
  let cfg : Cfg := { safeState := ← fBool j "safe", movingTime := ← fInt j "mt" }
  let s0 : St := { now := ← fInt j "t0", openSw := ← fNat j "open", closedSw := ← fNat j "closed",
                   coil := ← fBool j "coil", target := 0, error := false, lastGood := 0 }
  let evs ← (← fArr j "events").mapM parseEv
  match evs with
  | .reset :: _ => pure (" | ".intercalate ((trace cfg s0 evs).map showSt))
  | _ => none

def main : IO Unit := driverMain step'
