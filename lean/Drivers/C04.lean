import Ebv.Driver.Io
import Ebv.Model.Stack
open Ebv Ebv.Io Ebv.Stack Lean

def parseDecl (j : Json) : Option Decl := do
  match ← jArr j with
  | [k, a] => if (← jStr k) == "loc" then pure (.loc (← jNat a)) else none
  | [k, a, b] => if (← jStr k) == "dict" then pure (.dict (← jNat a) (← jNat b)) else none
  | _ => none

def parseVDecl (j : Json) : Option VDecl := do
  match ← jArr j with
  | [k, a] => if (← jStr k) == "loc" then pure (.loc (← jNat a)) else none
  | [k, a, b] =>
    if (← jStr k) == "dict" then pure (.dict (← (← jArr a).mapM jNat) (← (← jArr b).mapM jNat)) else none
  | _ => none

def parseRhs (j : Json) : Option Rhs := do
  match ← jArr j with
  | [k, a] => if (← jStr k) == "const" then pure (.const (← jNat a)) else none
  | [k, a, b] =>
    let k ← jStr k
    if k == "copy" then pure (.copy (← jNat a) (← jNat b))
    else if k == "sum" then pure (.sum (← jNat a) (← jNat b))
    else none
  | _ => none

def parseStmt (j : Json) : Option Stmt := do
  let t ← fInt j "t"
  let temps ← (← fArr j "temps").mapM jNat
  pure { target := if t < 0 then none else some t.toNat, rhs := ← parseRhs (← field j "rhs"),
         temps := temps.map fun n => (n, List.replicate n 255) }

def step (j : Json) : Option String := do
  let op ← fStr j "op"
  if op == "alloc" then
    let ds ← (← fArr j "decls").mapM parseDecl
    let (sl, fin) := alloc (← fInt j "start") ds
    pure s!"{joinSp (sl.map fun s => s!"{s.addr}:{s.size}")} | {fin}"
  else if op == "temps" then
    let sizes ← (← fArr j "sizes").mapM jNat
    let (_, out) := sizes.foldl (fun (st, acc) n => let a := getStack st n; (a, acc ++ [toString a])) ((← fInt j "stack"), [])
    pure (joinSp out)
  else if op == "vars" then
    let ds ← (← fArr j "decls").mapM parseVDecl
    let (sl, fin) := varSlots (← fInt j "start") ds
    pure s!"{joinSp (sl.map fun s => s!"{s.addr}:{s.size}")} | {fin}"
  else if op == "exec" then
    let ds ← (← fArr j "decls").mapM parseVDecl
    let start ← fInt j "start"
    let cells ← (← fArr j "cells").mapM fun c => do
      match ← jArr c with
      | [a, b] => pure (← jNat a, ← jNat b)
      | _ => none
    let stmts ← (← fArr j "stmts").mapM parseStmt
    let (sl, fin) := varSlots start ds
    let vars := sl.map Var.stack ++ cells.map fun c => Var.cell c.1 c.2
    let s := execAll vars fin ⟨fun _ => 0, fun _ => 0⟩ stmts
    pure (joinSp ((List.range vars.length).map fun i => toString (readVar vars s i)))
  else if op == "sub" then
    pure (toString (subAddr (← fInt j "stack") (← fInt j "rel")))
  else none

def main : IO Unit := driverMain step
