import Ebv.Driver.Io
import Ebv.Model.Stack
open Ebv Ebv.Io Ebv.Stack Lean

def parseDecl (j : Json) : Option Decl := do
  match ← jArr j with
  | [k, a] => if (← jStr k) == "loc" then pure (.loc (← jNat a)) else none
  | [k, a, b] => if (← jStr k) == "dict" then pure (.dict (← jNat a) (← jNat b)) else none
  | _ => none

def step (j : Json) : Option String := do
  let op ← fStr j "op"
  if op == "alloc" then
    let ds ← (← fArr j "decls").mapM parseDecl
    let (sl, fin) := alloc (← fInt j "start") ds
    pure s!"{joinSp (sl.map fun s => s!"{s.addr}:{s.size}")} | {fin}"
  else if op == "temps" then
    let sizes ← (← fArr j "sizes").mapM jNat
    let (_, out) := sizes.foldl (fun (st, acc) n => let a := getStack st n; (a, acc ++ [toString a])) ((← fInt j "stack"), [])
    pure (joinSp out)
  else if op == "sub" then
    pure (toString (subAddr (← fInt j "stack") (← fInt j "rel")))
  else none

def main : IO Unit := driverMain step
