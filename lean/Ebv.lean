-- Root of the `Ebv` library.  Checks build the modules they need by name
-- (`lake build Ebv.Props.Cxx`); `bin/setup` builds all of them.
import Ebv.Driver.Io
