import sys
def gen(name, fd, size, ws):
    T = size + 13
    P = f"Programs.{name}"
    out = []
    w = out.append
    w(f"""import Ebv.Props.C21TVlib
/-! C21 translation validation for the regenerated bare fast group `{P}` (write datagrams {ws}, size {size}):
the bytecode returns XDP_TX and leaves frame and `wkc_errors` as `Ebv.FastGroup.program` prescribes.
(File generated once from the template in the C21TV work; the numbers are tied to the regenerated geometry by `geometry_ok`.) -/
namespace Ebv.C21TV.{name}
open Ebv.Ebpf Ebv.XdpRun Ebv.Bytes Ebv.C21TV

abbrev geo : Geo := geoOf {P}_varFd 8

/-- the literals used below are those of the regenerated program -/
theorem geometry_ok : {P}_varSize = 8 ∧ {P}_offWkcErrors = 0 ∧ {P}_size + Consts.ETHERNET_HEADER - 1 = {T} ∧
    {P}_writers = {ws} := by decide

variable {{a : Addrs}} {{e : Env}} {{s : State}} {{p : List UInt8}} {{er : Nat}} {{reg : Nat → Bool}}

set_option hygiene false in
macro "psetup" : tactic => `(tactic| (
  have hL' := hL
  have her1 := fun z => err_load (rel1 hL z)
  have hd1 := fun z => (ctx_loads hL z).1
  have he1 := fun z => (ctx_loads hL z).2
  obtain ⟨R, M, pc⟩ := s
  obtain ⟨hpc, hr10, hr1, hreg, hdata, hend, hpkt, hclen, hcnt, hdrop, hlook, htail⟩ := hL
  have hreg' := hreg
  obtain ⟨s1, s2, c1, p1, m0, m1, -, -, -, -, -, -⟩ := hreg'
  simp only [addr, geo, geoOf, {P}_varFd] at *
  subst hpc
  have hlt : a.dat + p.length < 4294967296 := by rw [← hend]; exact loadN_lt' M 4 _
  have hmp : ¬ a.mp = 0 := by omega
  have herlt : er < 4294967296 := by rw [← hdrop]; exact loadN_lt' M 4 _
  clear hpkt hcnt hdrop hdata hend hclen))

set_option maxRecDepth 4000 in
set_option maxHeartbeats 2000000 in
theorem exit_short (hL : Layout geo a e s p [] er reg) (h : p.length ≤ {T}) :
    ∃ R' pc', runXdp e {P} 30 s = .exit 3 ⟨R', storeN s.mem (BitVec.ofNat 64 (a.stk - 4)) 4 0, pc'⟩ := by
  psetup
  ysim [hr10, hr1, hlook, hmp, hd1, he1, her1]
  exact ⟨_, _, rfl⟩

set_option maxRecDepth 4000 in
set_option maxHeartbeats 2000000 in
theorem exit_noerr (hL : Layout geo a e s p [] er reg) (h : {T} < p.length) (h0 : er = 0) :
    ∃ R' pc', runXdp e {P} 30 s = .exit 3 ⟨R', storeN s.mem (BitVec.ofNat 64 (a.stk - 4)) 4 0, pc'⟩ := by
  psetup
  ysim [hr10, hr1, hlook, hmp, hd1, he1, her1]
  exact ⟨_, _, rfl⟩

set_option maxRecDepth 4000 in
set_option maxHeartbeats 2000000 in
theorem prologue (hL : Layout geo a e s p [] er reg) (h : {T} < p.length) (h0 : er ≠ 0) :
    ∃ R', Steps e {P} 20 s ⟨R', storeN s.mem (BitVec.ofNat 64 (a.stk - 4)) 4 0, 20⟩ ∧
      R' 7 = BitVec.ofNat 64 a.mp ∧ R' 9 = BitVec.ofNat 64 a.dat := by
  psetup
  refine ⟨?R', ⟨16, by omega, fun f => ?eq⟩, ?h7, ?h9⟩
  case eq =>
    ysim [hr10, hr1, hlook, hmp, hd1, he1, her1]
    rfl
  all_goals simp only [upd_apply, callR_apply, Nat.reduceEqDiff, Nat.reduceLeDiff, if_true, if_false]

variable {{M0 M : W → BitVec 8}} {{q : List UInt8}} {{len : Nat}} {{R : Nat → W}}
""")
    for i, (c, wk, cmd, ex) in enumerate(ws):
        pc0, pc1 = 20 + 6 * i, 26 + 6 * i
        w(f"""
set_option maxRecDepth 4000 in
set_option maxHeartbeats 2000000 in
/-- `activate` of write datagram {i}: command byte {c} := {cmd}, working counter at {wk} compared with {ex} and cleared -/
theorem seg_act{i} (hreg : Regions geo a len) (hrel : MemRel geo a M0 M q [] er len) (h : {T} < len)
    (h7 : R 7 = BitVec.ofNat 64 a.mp) (h9 : R 9 = BitVec.ofNat 64 a.dat) :
    ∃ R' M', Steps e {P} 6 ⟨R, M, {pc0}⟩ ⟨R', M', {pc1}⟩ ∧
      R' 7 = BitVec.ofNat 64 a.mp ∧ R' 9 = BitVec.ofNat 64 a.dat ∧
      MemRel geo a M0 M' (actP q {c} {wk} {cmd}) [] (actE q {wk} {ex} er) len := by
  have hlp := hrel.load_pkt
  have hle := err_load hrel
  have hplen := hrel.plen
  have hreg' := hreg
  obtain ⟨s1, s2, c1, p1, m0, m1, -, -, -, -, -, -⟩ := hreg'
  have hbw := decLE_slice_bound q {wk} 2 (by omega)
  simp only [Nat.reduceAdd, Nat.reducePow] at hbw
  unfold actE
  simp only [Nat.reduceAdd]
  by_cases hw : decLE (slice q {wk} {wk+2}) = {ex}
  · refine ⟨?R', ?M', ⟨4, by omega, fun f => ?eq⟩, ?h7, ?h9, ?rel⟩
    case eq =>
      ysim [h7, h9, hlp, hle, ld_map0_st_pkt hreg, hw]
      rfl
    case rel => rw [if_pos hw]; exact rel_act_ok hreg hrel {c} {wk} {cmd} (by omega) (by omega)
    all_goals simp only [upd_apply, Nat.reduceEqDiff, if_false, h7, h9]
  · refine ⟨?R2, ?M2, ⟨6, by omega, fun f => ?eq2⟩, ?h72, ?h92, ?rel2⟩
    case eq2 =>
      ysim [h7, h9, hlp, hle, ld_map0_st_pkt hreg, hw]
      rfl
    case rel2 => rw [if_neg hw]; exact rel_act_err hreg hrel {c} {wk} {cmd} (er + 1) (by omega) (by omega)
    all_goals simp only [upd_apply, Nat.reduceEqDiff, if_false, h7, h9]
""")
    n = len(ws)
    pcr = 20 + 6 * n
    # nested frames / errors
    q = "p"; er = "er"; qs = ["p"]; ers = ["er"]
    for (c, wk, cmd, ex) in ws:
        er = f"(actE {q} {wk} {ex} {er})"
        q = f"(actP {q} {c} {wk} {cmd})"
        qs.append(q); ers.append(er)
    w(f"""
set_option maxRecDepth 4000 in
theorem seg_ret (R : Nat → W) (M : W → BitVec 8) :
    Steps e {P} 1 ⟨R, M, {pcr}⟩ ⟨upd R 0 3#64, M, {pcr+1}⟩ ∧
    ∀ f, runXdp e {P} (f + 1) ⟨upd R 0 3#64, M, {pcr+1}⟩ = .exit 3#64 ⟨upd R 0 3#64, M, {pcr+1}⟩ := by
  refine ⟨⟨1, by omega, fun f => ?_⟩, fun f => ?_⟩
  · ysim []
  · ysim []

/-- the write datagrams of the regenerated group, as `Ebv.FastGroup` sees them -/
def writers : List FastGroup.Writer := {P}_writers.map fun w => ⟨w.1, w.2.1, w.2.2.1, w.2.2.2⟩
""")
    # fast_eq
    lens = []
    w(f"""theorem fast_eq (p : List UInt8) (er : Nat) (h : {T} < p.length) (her : er ≠ 0) :
    FastGroup.program writers {P}_size p er = ({qs[-1]}, {ers[-1]}) := by
  simp only [FastGroup.program, writers, {P}_writers, {P}_size, Consts.ETHERNET_HEADER, List.map,
    FastGroup.activateAll, her, if_false]
  rw [if_neg (by omega)]""")
    for i, (c, wk, cmd, ex) in enumerate(ws):
        if i > 0:
            pc, pwk, pcmd, _ = ws[i-1]
            w(f"  have l{i} := actP_length {qs[i-1]} {pc} {pwk} {pcmd} (by omega) (by omega)")
        w(f"  rw [activateOne_eq {qs[i]} {c} {wk} {cmd} {ex} _ (by omega) (by omega) (by omega)]")
    w(f"""
/-- **Translation validation of `{P}`, enabled pass** (frame longer than {T} bytes, `wkc_errors ≠ 0`) -/
theorem refines (hL : Layout geo a e s p [] er reg) (hlen : {T} < p.length) (her : er ≠ 0) (fuel : Nat)
    (hf : 60 ≤ fuel) :
    ∃ s', runXdp e {P} fuel s = .exit 3#64 s' ∧
      MemRel geo a s.mem s'.mem (FastGroup.program writers {P}_size p er).1 []
        (FastGroup.program writers {P}_size p er).2 p.length := by
  rw [fast_eq p er hlen her]
  have hreg := hL.regions
  obtain ⟨R0, st, h7, h9⟩ := prologue hL hlen her
  have rel := rel1 hL 0""")
    for i, (c, wk, cmd, ex) in enumerate(ws):
        w(f"  obtain ⟨R{i+1}, M{i+1}, st{i+1}, h7, h9, rel⟩ := seg_act{i} (e := e) hreg rel hlen h7 h9")
        w(f"  have st := st.trans st{i+1}")
    w(f"""  obtain ⟨str, hx⟩ := seg_ret (e := e) R{n} M{n}
  exact ⟨_, (st.trans str).exit hx fuel (by omega), rel⟩

/-- **idle pass**: a short frame or `wkc_errors = 0`: XDP_TX, nothing changes -/
theorem idle (hL : Layout geo a e s p [] er reg) (h : p.length ≤ {T} ∨ er = 0) (fuel : Nat) (hf : 60 ≤ fuel) :
    ∃ s', runXdp e {P} fuel s = .exit 3#64 s' ∧
      MemRel geo a s.mem s'.mem (FastGroup.program writers {P}_size p er).1 []
        (FastGroup.program writers {P}_size p er).2 p.length := by
  have hfp : FastGroup.program writers {P}_size p er = (p, er) := by
    unfold FastGroup.program
    rcases h with h | h
    · rw [if_pos (by simp only [{P}_size, Consts.ETHERNET_HEADER]; omega)]
    · subst h; split <;> rfl
  rw [hfp]
  have key : ∃ R' pc', runXdp e {P} 30 s =
      .exit 3 ⟨R', storeN s.mem (BitVec.ofNat 64 (a.stk - 4)) 4 0, pc'⟩ := by
    by_cases hs : p.length ≤ {T}
    · exact exit_short hL hs
    · exact exit_noerr hL (by omega) (by omega)
  obtain ⟨R', pc', hk⟩ := key
  obtain ⟨j, rfl⟩ : ∃ j, fuel = 30 + j := ⟨fuel - 30, by omega⟩
  refine ⟨⟨R', storeN s.mem (BitVec.ofNat 64 (a.stk - 4)) 4 0, pc'⟩, ?_, rel1 hL 0⟩
  rw [runXdp_add e _ 30 j s (by rw [hk]; exact fun hc => by cases hc), hk]
  rfl

end Ebv.C21TV.{name}
""")
    return "\n".join(out)

L = {"fastA": (32, [(30, 44, 5, 1)]), "fastB": (64, [(44, 58, 5, 1), (60, 76, 11, 3)]), "fastC": (50, [(30, 42, 8, 2), (44, 62, 5, 1)])}
for name, (size, ws) in L.items():
    open(f"/verif/lean/Ebv/Props/C21TV{name[-1]}.lean", "w").write(gen(name, 40, size, ws))
