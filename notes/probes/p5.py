"""probe C24: cancelling ProcessSyncGroup.wait_for_process"""
import sys, asyncio, subprocess, types
sys.path.insert(0, '/repo')
from ebpfcat.ebpfcat import ProcessSyncGroup
class RV: value = True
async def main():
    child = subprocess.Popen([sys.executable, '-c', 'import time,sys\nwhile True:\n time.sleep(0.05)'])
    me = types.SimpleNamespace(process=child, runningValue=RV())
    task = asyncio.ensure_future(ProcessSyncGroup.wait_for_process(me))
    await asyncio.sleep(0.1)
    task.cancel()
    await asyncio.sleep(0.1)
    print("running flag after cancel:", me.runningValue.value)
    child.terminate()          # the real child would stop because running became False
    await asyncio.sleep(0.3)
    try:
        await task
        print("task returned normally")
    except asyncio.CancelledError: print("task ended cancelled")
    except BaseException as ex: print("task ended with", type(ex).__name__, ex)
asyncio.run(main())
