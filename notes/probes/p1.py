"""probe: random integer expressions over array-map variables, executed in the kernel, vs Python big-int semantics"""
import sys, random, struct, collections
sys.path.insert(0, '/repo')
from ctypes import create_string_buffer
from ebpfcat.ebpf import EBPF, AssembleError
from ebpfcat.arraymap import ArrayMap
from ebpfcat.bpf import ProgType, bpf, addrof, BPFError
random.seed(int(sys.argv[1]) if len(sys.argv) > 1 else 1)
FMT = {'B':(1,False),'H':(2,False),'I':(4,False),'Q':(8,False),'b':(1,True),'h':(2,True),'i':(4,True),'q':(8,True)}
def rng(f):
    n, s = FMT[f]; return (-(1 << (8*n-1)), (1 << (8*n-1)) - 1) if s else (0, (1 << 8*n) - 1)
def wrap(v, f):
    n, s = FMT[f]; v &= (1 << 8*n) - 1
    return v - (1 << 8*n) if s and v >> (8*n-1) else v
OPS = ['+','-','*','//','%','&','|','^','<<','>>','neg','abs']
RING = {'+','-','*','&','|','^','<<','neg'}
def gen(depth, leaves):
    if depth == 0 or random.random() < .3:
        if random.random() < .35:
            c = random.choice([0,1,-1,2,3,7,100,-100,2**31-1,-2**31,2**31,2**32-1,2**32,2**40+5,-2**40,2**63-1,-2**63, random.randrange(-2**63, 2**63)])
            return ('c', c)
        return ('v', random.choice(leaves))
    op = random.choice(OPS)
    if op in ('neg','abs'): return (op, gen(depth-1, leaves))
    if op in ('<<','>>'): return (op, gen(depth-1, leaves), ('c', random.choice([0,1,3,7,15,31,33,63])))
    return (op, gen(depth-1, leaves), gen(depth-1, leaves))
def build(e, t):
    k = t[0]
    if k == 'c': return t[1]
    if k == 'v': return getattr(e, t[1])
    if k == 'neg': return -build(e, t[1])
    if k == 'abs': return abs(build(e, t[1]))
    a, b = build(e, t[1]), build(e, t[2])
    return {'+':lambda:a+b,'-':lambda:a-b,'*':lambda:a*b,'//':lambda:a//b,'%':lambda:a%b,'&':lambda:a&b,'|':lambda:a|b,'^':lambda:a^b,'<<':lambda:a<<b,'>>':lambda:a>>b}[k]()

class Unfit(Exception): pass
def fits(v, signed, W):
    return -(1 << (W-1)) <= v < (1 << (W-1)) if signed else 0 <= v < (1 << W)
def tdiv(a, b):
    q = abs(a) // abs(b); return q if (a < 0) == (b < 0) else -q
def ev(t, env, W, info):
    """returns (set of admissible math values, signed, all-subresults-fit-W)"""
    k = t[0]
    if k == 'c': return {t[1]}, t[1] < 0, fits(t[1], t[1] < 0, W)
    if k == 'v': v = env[t[1]]; sg = FMT[t[1][-1]][1]; return {v}, sg, fits(v, sg, W)
    if k in ('neg','abs'):
        A, sa, fa = ev(t[1], env, W, info)
        if k == 'neg': R = {-a for a in A}; return R, True, fa and all(fits(r, True, W) for r in R)
        if not fa: raise Unfit
        info.append(('abs', 'signed' if sa else 'unsigned', 'neg' if min(A) < 0 else 'nonneg'))
        R = {abs(a) for a in A}; return R, False, all(fits(r, False, W) for r in R)
    A, sa, fa = ev(t[1], env, W, info); B, sb, fb = ev(t[2], env, W, info)
    s = sa or sb
    if k in RING:
        if k == '<<':
            if not all(0 <= b < W for b in B): raise Unfit
            R = {a << b for a in A for b in B}; sg = sa
        else:
            f = {'+':lambda a,b:a+b,'-':lambda a,b:a-b,'*':lambda a,b:a*b,'&':lambda a,b:a&b,'|':lambda a,b:a|b,'^':lambda a,b:a^b}[k]
            R = {f(a, b) for a in A for b in B}; sg = s
        return R, sg, fa and fb and all(fits(r, sg, W) for r in R)
    if not (fa and fb): raise Unfit
    if k == '>>':
        if not all(0 <= b < W for b in B): raise Unfit
        info.append(('>>', 'signed' if sa else 'unsigned', 'neg' if min(A) < 0 else 'nonneg'))
        R = {a >> b for a in A for b in B}; return R, sa, all(fits(r, sa, W) for r in R)
    if 0 in B: raise Unfit
    info.append((k, 'signed' if s else 'unsigned', 'neg' if min(A) < 0 or min(B) < 0 else 'nonneg'))
    if k == '//': R = {a // b for a in A for b in B} | {tdiv(a, b) for a in A for b in B}
    else: R = {a % b for a in A for b in B} | {a - b * tdiv(a, b) for a in A for b in B}
    return R, s, all(fits(r, s, W) for r in R)
def flat(t):
    if t[0] in ('c', 'v'): return [t]
    return [x for sub in t[1:] for x in flat(sub)]
def ringonly(t):
    if t[0] in ('c','v'): return True
    return t[0] in RING and all(ringonly(x) for x in t[1:])
def trun(fd):
    din = create_string_buffer(64); dout = create_string_buffer(128)
    bpf(10, "IIIIQQII20x", fd, 0, len(din), len(dout), addrof(din), addrof(dout), 1, 0)
def show(t):
    if t[0] == 'c': return str(t[1])
    if t[0] == 'v': return t[1]
    if t[0] in ('neg','abs'): return ('-' if t[0]=='neg' else 'abs') + '(' + show(t[1]) + ')'
    return '(' + show(t[1]) + ' ' + t[0] + ' ' + show(t[2]) + ')'
stats = collections.Counter(); fails = collections.Counter(); examples = {}
N = int(sys.argv[2]) if len(sys.argv) > 2 else 300
for it in range(N):
    leaves = ['v' + f for f in random.sample(list(FMT), 3)]
    dest = 'd' + random.choice(list(FMT))
    t = gen(random.choice([1,1,2,2,3]), leaves)
    used = [x[1] for x in flat(t) if x[0] == 'v']
    if not used: continue
    ns = {'m': ArrayMap()}
    for l in set(leaves): ns[l] = ns['m'].globalVar(l[-1])
    ns[dest] = ns['m'].globalVar(dest[-1])
    P = type('P', (EBPF,), ns)
    try:
        e = P(ProgType.XDP, "GPL")
        setattr(e, dest, build(e, t))
        e.exit()
        e.load(log_level=1)
    except Exception as ex:
        stats['gen-' + type(ex).__name__] += 1
        examples.setdefault('gen-' + type(ex).__name__, (show(t), dest, str(ex)[-200:]))
        continue
    W = 32 if any(FMT[l[-1]][0] <= 4 for l in used) or FMT[dest[-1]][0] <= 4 else 64
    for trial in range(12):
        env = {}
        for l in set(leaves):
            lo, hi = rng(l[-1])
            env[l] = random.choice([0, 1, hi, lo, lo+1 if lo else 2, random.randint(lo, hi), random.randint(max(lo,-50), min(hi, 50))])
            setattr(e, l, env[l])
        setattr(e, dest, 0)
        info = []
        try:
            R, sg, fa = ev(t, env, W, info)
            ok_pre = True
        except Unfit:
            ok_pre = False
        if not ok_pre:
            if not ringonly(t): stats['skipped-outside-pre'] += 1; continue
            R, sg, fa = ev(t, env, 10**6, [])   # ring-only: no precondition
        trun(e.file_descriptor)
        got = getattr(e, dest)
        exp = {wrap(r, dest[-1]) for r in R}
        stats['checked'] += 1
        if got not in exp:
            key = tuple(sorted(set(info))) if info else ('ring',)
            fails[key] += 1
            examples.setdefault(key, (show(t), dest, env, 'got', got, 'exp', sorted(exp)[:2], 'W', W))
    e.close()
print(dict(stats))
for k, v in fails.most_common(): print(v, k, '\n     e.g.', examples[k])
for k in examples:
    if isinstance(k, str): print(k, examples[k])
