import sys, asyncio
sys.path.insert(0, '/repo')
from ebpfcat.ebpfcat import ProcessSyncGroup, ParallelEtherCat, Device, DeviceVar, SyncGroup, SimpleEtherCat
from ebpfcat.devices import Counter

class D(Device):
    a = DeviceVar('I', write=True)
    b = DeviceVar('q')
    def get_terminals(self): return {}

ec = ParallelEtherCat('lo')
d1, d2 = D(), D()
try:
    sg = ProcessSyncGroup(ec, [d1, d2])
    print("dict", d1.__dict__, sg.__dict__.keys())
    d1.a = 5
    print(d1.a, d2.a)
except Exception as e:
    import traceback; traceback.print_exc()
