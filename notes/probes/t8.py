import sys
sys.path.insert(0, '/repo')
from ebpfcat.ebpfcat import EtherXDP, FastEtherCat
from ebpfcat.bpf import create_map, MapType
e = EtherXDP()
e.programs = create_map(MapType.PROG_ARRAY, 4, 4, 64)
print("owners after init", e.owners)
try:
    code = e.assemble()
    print(len(e.opcodes), "insns")
    for i, o in enumerate(e.opcodes): print(i, o.opcode, o.dst, o.src, o.off, o.imm)
    e.opcodes = []
    print(e.load(log_level=1)[-200:])
except Exception as ex:
    import traceback; traceback.print_exc()
