import sys, struct
sys.path.insert(0, '/repo')
from ebpfcat.ebpf import EBPF, LocalVar, SubProgram
from ebpfcat.arraymap import ArrayMap
from ebpfcat.xdp import XDP, PacketVar, XDPExitCode
from ebpfcat.bpf import ProgType

# (c) signed big-endian packet read
class P(XDP):
    license = "GPL"
    minimumPacketSize = 40
    m = ArrayMap()
    out = m.globalVar('q')
    out2 = m.globalVar('q')
    out3 = m.globalVar('q')
    pv = PacketVar(20, ">h")
    pl = PacketVar(22, "<h")
    pn = PacketVar(24, "h")
    def program(self):
        self.out = self.pv
        self.out2 = self.pl
        self.out3 = self.pn
p = P(); p.load(log_level=1)
pkt = bytearray(64); pkt[20:22] = struct.pack(">h", -2); pkt[22:24] = struct.pack("<h", -3); pkt[24:26]=struct.pack("h",-4)
p.test_run(bytes(pkt), 64, 0, 0, 1)
print("C07 >h -2 ->", p.out, " <h -3 ->", p.out2, " h -4 ->", p.out3)

# (b) subprogram locals aliasing
class Main(EBPF):
    m = ArrayMap()
    o1 = m.globalVar('I'); o2 = m.globalVar('I'); o3 = m.globalVar('I')
    ml = LocalVar('I')
class Sub(SubProgram):
    sl = LocalVar('I')
class Sub2(SubProgram):
    tl = LocalVar('I')
s1, s2 = Sub(), Sub2()
e = Main(ProgType.XDP, "GPL", subprograms=[s1, s2])
e.ml = 1
s1.sl = 2
s2.tl = 3
e.o1 = e.ml; e.o2 = s1.sl; e.o3 = s2.tl
e.exit()
e.load(log_level=1); e.test_run(1000,1000,0,0,1)
print("C04 ml, s1.sl, s2.tl =", e.o1, e.o2, e.o3)

# (d) override layout
class A(EBPF):
    m = ArrayMap()
    a = m.globalVar('B')
    b = m.globalVar('B')
class B(A):
    a = A.m.globalVar('Q')
x = B(ProgType.XDP, "GPL")
print("C08 positions", x.__dict__.get('a'), x.__dict__.get('b'), "size", A.m.size)
