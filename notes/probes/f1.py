import sys, random, struct
sys.path.insert(0, '/repo')
from ebpfcat.ethercat import Packet, ECCmd
from ebpfcat.ebpfcat import SterilePacket
random.seed(1)
def parse(frame):
    ln, = struct.unpack_from("<H", frame, 0)
    assert ln >> 12 == 1, "type"
    plen = ln & 0x7ff
    pos = 2; out = []
    while True:
        cmd, idx, addr, l, irq = struct.unpack_from("<BBIHH", frame, pos)
        dl = l & 0x7ff; more = l >> 15
        data = frame[pos+10:pos+10+dl]; wkc, = struct.unpack_from("<H", frame, pos+10+dl)
        out.append((cmd, idx, addr, dl, more, pos+10, wkc, data))
        pos += 12 + dl
        if not more: break
    return plen, pos, out
bad = 0
for it in range(20000):
    p = Packet(); exp = []; 
    n = random.choice([1,2,3,5,14,15,16,17])
    for k in range(n):
        cmd = random.choice(list(ECCmd))
        dl = random.choice([0,1,2,10,100,700,1400,1472,1473,1474, random.randrange(0,1500)])
        data = bytes(random.randrange(256) for _ in range(min(dl,8))) + bytes(max(0,dl-8))
        wkc = random.choice([0,1,7,65535])
        if random.random() < .5:
            addr = (random.randrange(-32768,32768), random.randrange(0,65536)); a32 = (addr[0] & 0xffff) | addr[1] << 16
        else:
            a = random.randrange(-2**31, 2**31); addr = (a,); a32 = a & 0xffffffff
        idx = random.randrange(256)
        before = (p.size, len(p.data))
        try:
            st, sp = p.append(cmd, data, idx, *addr, wkc=wkc)
            exp.append((cmd.value, idx, a32, dl, st, wkc, data))
        except OverflowError:
            if (p.size, len(p.data)) != before: print("state changed on reject"); bad += 1
            fits = before[0] + dl + 12 <= 1500 and before[1] <= 14
            if fits: print("rejected though fits", before, dl); bad += 1
    index = random.randrange(0, 2**31)
    f = p.assemble(index, 0x88A4)
    if not exp:
        continue
    plen, end, dg = parse(f)
    if plen != p.size - 2: print("len mismatch", plen, p.size); bad += 1
    if len(f) != max(p.size, 46): print("frame len", len(f), p.size); bad += 1
    if len(dg) != len(exp) + 1: print("count", len(dg), len(exp)); bad += 1; continue
    idd = dg[0]
    if (idd[0], idd[2], idd[3]) != (0, index, 2) or idd[7] != struct.pack("<H", 0x88A4): print("id dgram", idd); bad += 1
    for i, (d, e) in enumerate(zip(dg[1:], exp)):
        if (d[0], d[1], d[2], d[3], d[5], d[6], d[7]) != e: print("dgram mismatch", d, e); bad += 1
        if d[4] != (i < len(exp) - 1): print("more flag", i, d[4]); bad += 1
    if exp == [] and idd[4] != 0: 
        bad += 1
        if bad < 3: print("empty packet: id datagram has more=1 but nothing follows")
print("C11 bad", bad)
