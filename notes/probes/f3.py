import sys, random, asyncio
sys.path.insert(0, '/repo')
from ebpfcat.ethercat import Terminal, MachineState as MS, ECCmd, EtherCatError
random.seed(3)
ORDER = [MS.INIT, MS.PRE_OPERATIONAL, MS.SAFE_OPERATIONAL, MS.OPERATIONAL]
class FakeEc:
    def __init__(self, start, err, delays, errat):
        self.state = start; self.err = err; self.req = None; self.delays = delays; self.errat = errat; self.trace = []; self.polls = 0; self.countdown = 0
    async def roundtrip(self, cmd, pos, off, *args, **kw):
        if cmd is ECCmd.FPWR and off == 0x120:
            v = args[1]; self.trace.append(('w', v))
            if v & 0x10: self.err = False; self.state = MS.INIT; self.req = None
            else: self.req = MS(v & 0xf); self.countdown = self.delays.pop(0) if self.delays else 0
            return ()
        if cmd is ECCmd.FPRD and off == 0x130:
            self.polls += 1
            if self.req is not None:
                if self.countdown == 0: self.state = self.req; self.req = None
                else: self.countdown -= 1
            e = self.err or (self.polls == self.errat)
            self.trace.append(('r', self.state.value, e))
            return (self.state.value | (0x10 if e else 0), 0)
bad = 0
async def main():
    global bad
    for it in range(20000):
        start = random.choice(ORDER); err = random.random() < .3
        target = random.choice(ORDER[1:])
        errat = random.choice([None, None, 1, 2, 3, 5, 8])
        ec = FakeEc(start, err, [random.randrange(0, 4) for _ in range(4)], errat)
        t = Terminal(ec); t.position = 7
        try:
            ret = await t.to_operational(target); out = 'ret'
        except EtherCatError: out = 'raise'
        tr = ec.trace
        ws = [x[1] for x in tr if x[0] == 'w']
        first = tr[0]
        eff_start = MS.INIT if first[2] else MS(first[1])
        exp_ack = [0x11] if first[2] else []
        plain = [w for w in ws if w != 0x11]
        if ws[:len(exp_ack)] != exp_ack or 0x11 in ws[len(exp_ack):]: print("ack", tr); bad += 1
        want = [s.value for s in ORDER[ORDER.index(eff_start)+1: ORDER.index(target)+1]]
        if out == 'ret':
            if plain != want: print("writes", start, err, target, plain, want, tr); bad += 1
            last = [x for x in tr if x[0]=='r'][-1]
            if not first[2] and last[1] < target.value: print("returned early", tr); bad += 1
        else:
            if plain != want[:len(plain)]: print("writes-prefix", plain, want); bad += 1
            if not any(x[0]=='r' and x[2] for x in tr[1:]) : print("raised without error", tr); bad += 1
        # next request only after previous reported
        lastw = None
        for x in tr:
            if x[0] == 'w' and x[1] != 0x11:
                if lastw is not None and not seen: print("write before report", tr); bad += 1
                lastw = x[1]; seen = False
            elif x[0] == 'r' and lastw is not None and x[1] == lastw: seen = True
asyncio.run(main())
print("C14 bad", bad)
