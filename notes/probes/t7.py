import sys, struct
sys.path.insert(0, '/repo')
from ebpfcat.ebpfcat import FastSyncGroup, SimpleEtherCat, SyncManager, EtherXDP
from ebpfcat.terminals import EL7041
from ebpfcat.devices import Motor
import ebpfcat.arraymap as am, ebpfcat.bpf as bpf

ec = SimpleEtherCat('lo')
t = EL7041(ec); t.position = 5
# pdos: (index, subindex) -> (sm, byteoffset, bit or fmt)
t.pdos = {(0x7010, 0x21): (SyncManager.OUT, 2, 'H'), (0x7010, 1): (SyncManager.OUT, 0, 0),
          (0x6010, 0xc): (SyncManager.IN, 1, 3), (0x6010, 0xd): (SyncManager.IN, 1, 4),
          (0x6000, 0x11): (SyncManager.IN, 2, 'I')}
t.pdo_in_sz = 6; t.pdo_out_sz = 4; t.pdo_in_off = 0x1100; t.pdo_out_off = 0x1000
t.use_fmmu = False
m = Motor()
m.velocity = t.velocity; m.encoder = t.stepcounter
m.low_switch = t.low_switch; m.high_switch = t.high_switch; m.enable = t.enable
sg = FastSyncGroup(ec, [m])
sg.allocate()
print("pdo_assign", sg.pdo_assign, "packet size", sg.packet.size)
code = sg.assemble()
print(len(sg.opcodes), "insns")
for i, op in enumerate(sg.opcodes): print(i, op.opcode, op.dst, op.src, op.off, op.imm)

print(sg.load(log_level=1)[-200:])
sg.wkc_errors = 1
m.set_enable = 1; m.max_velocity = 1000; m.max_acceleration = 40000; m.target = 1000000; m.proportional = 1
pkt = bytearray(14 + 50 + 20)
struct.pack_into("<i", pkt, 42, 0)      # encoder
struct.pack_into("<h", pkt, 60, 100)    # previous velocity
struct.pack_into("<H", pkt, 62, 1)      # wkc of writer dgram as expected
ret = sg.test_run(bytes(pkt), len(pkt), 0, 0, 1)
out = ret[3]
print("retval", ret[1], "new velocity", struct.unpack_from("<h", out, 60)[0], "expected 1000")
