import sys, asyncio, struct
sys.path.insert(0, '/repo')
from ebpfcat.ethercat import EtherCat, ECCmd, Terminal, EtherCatError, Packet

class FakeTransport:
    def __init__(self, ec): self.ec = ec; self.sent = []
    def sendto(self, data, addr):
        self.sent.append(bytes(data))

async def main():
    # C13: empty raw data with formats
    ec = EtherCat('x'); ec.send_queue = asyncio.Queue()
    async def responder():
        *d, fut = await ec.send_queue.get()
        print("queued", d)
        fut.set_result(d[1])
    asyncio.ensure_future(responder())
    try:
        print(await ec.roundtrip(ECCmd.FPRD, 1, 2, "H", 7, data=b""))
    except Exception as e:
        print("C13 empty data:", type(e), e)
    # C20: fmmu slot
    t = Terminal(ec); t.position = 5
    t.pdo_out_off = 0x1000; t.pdo_out_sz = 4; t.pdo_in_off=0x1100; t.pdo_in_sz=4
    t.fmmu_used = [None]*3
    writes = []
    async def w(start, *a, **k): writes.append((hex(start), a))
    t.write = w
    async with t.map_fmmu(0x10000, True) as i1:
        async with t.map_fmmu(0x20000, True) as i2:
            print("C20 write slots", i1, i2, t.fmmu_used)
        async with t.map_fmmu(0x30000, False) as i3:
            print("C20 read slot", i3, t.fmmu_used)
asyncio.run(main())
