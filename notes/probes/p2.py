"""probe: random condition trees (with / Else, nesting) executed in the kernel vs Python truth values"""
import sys, random, struct, collections, operator
sys.path.insert(0, '/repo')
from ctypes import create_string_buffer
from ebpfcat.ebpf import EBPF
from ebpfcat.arraymap import ArrayMap
from ebpfcat.bpf import ProgType, bpf, addrof
random.seed(int(sys.argv[1]) if len(sys.argv) > 1 else 1)
FMT = {'B':(1,False),'H':(2,False),'I':(4,False),'Q':(8,False),'b':(1,True),'h':(2,True),'i':(4,True),'q':(8,True)}
def rng(f):
    n, s = FMT[f]; return (-(1 << (8*n-1)), (1 << (8*n-1)) - 1) if s else (0, (1 << 8*n) - 1)
CMP = {'<':operator.lt,'<=':operator.le,'>':operator.gt,'>=':operator.ge,'==':operator.eq,'!=':operator.ne}
def atom(leaves):
    r = random.random()
    if r < .25:
        return ('bit', random.choice(leaves), random.choice([1,2,4,0x80,3,0xff,0x100,0x8000]))
    l = ('v', random.choice(leaves))
    rr = ('v', random.choice(leaves)) if random.random() < .5 else ('c', random.choice([0,1,-1,5,127,128,255,256,-128,32767,65535,-32768,2**31-1,-2**31,2**31,2**32-1,2**40,-2**40]))
    return ('cmp', random.choice(list(CMP)), l, rr)
def cond(depth, leaves):
    if depth == 0 or random.random() < .4: return atom(leaves)
    k = random.choice(['and','or','not'])
    if k == 'not': return ('not', cond(depth-1, leaves))
    return (k, cond(depth-1, leaves), cond(depth-1, leaves))
def bexpr(e, t):
    if t[0] == 'c': return t[1]
    return getattr(e, t[1])
def bcond(e, t):
    k = t[0]
    if k == 'bit': return (getattr(e, t[1]) & t[2]) != 0
    if k == 'cmp':
        a, b = bexpr(e, t[2]), bexpr(e, t[3]); op = t[1]
        return {'<':lambda:a<b,'<=':lambda:a<=b,'>':lambda:a>b,'>=':lambda:a>=b,'==':lambda:a==b,'!=':lambda:a!=b}[op]()
    if k == 'not': return ~bcond(e, t[1])
    a, b = bcond(e, t[1]), bcond(e, t[2])
    return a & b if k == 'and' else a | b
class Unfit(Exception): pass
def fits(v, W): return -(1 << (W-1)) <= v < (1 << (W-1))
def tv(t, env):
    k = t[0]
    if k == 'bit': return bool(env[t[1]] & t[2])
    if k == 'cmp':
        ws = [FMT[x[1][-1]][0] for x in (t[2], t[3]) if x[0] == 'v']
        W = 32 if any(w <= 4 for w in ws) else 64
        a = env[t[2][1]] if t[2][0] == 'v' else t[2][1]; b = env[t[3][1]] if t[3][0] == 'v' else t[3][1]
        if not (fits(a, W) and fits(b, W)): raise Unfit
        return CMP[t[1]](a, b)
    if k == 'not': return not tv(t[1], env)
    a = tv(t[1], env); b = tv(t[2], env)     # evaluate both so Unfit is raised regardless of short-circuit
    return (a and b) if k == 'and' else (a or b)
def gstmt(depth, leaves, ctr):
    """statement tree: ('if', cond, then_stmts, else_stmts or None) / ('mark', n)"""
    out = []
    for _ in range(random.choice([1,1,2])):
        if depth > 0 and random.random() < .6:
            c = cond(random.choice([0,1,2]), leaves)
            th = gstmt(depth-1, leaves, ctr); el = gstmt(depth-1, leaves, ctr) if random.random() < .6 else None
            out.append(('if', c, th, el))
        else:
            ctr[0] += 1; out.append(('mark', ctr[0]))
    return out
def bstmts(e, ss):
    for s in ss:
        if s[0] == 'mark': e.res = e.res * 2 + 1 if False else None; e.res |= (1 << s[1]) if False else None
def emit(e, ss):
    for s in ss:
        if s[0] == 'mark':
            e.res = e.res | (1 << s[1])
        else:
            c = bcond(e, s[1])
            if s[3] is None:
                with c:
                    emit(e, s[2])
            else:
                with c as Else:
                    emit(e, s[2])
                with Else:
                    emit(e, s[3])
def ref(ss, env):
    r = 0
    for s in ss:
        if s[0] == 'mark': r |= 1 << s[1]
        else:
            if tv(s[1], env): r |= ref(s[2], env)
            elif s[3] is not None: r |= ref(s[3], env)
    return r
def showc(t):
    if t[0] == 'bit': return f"({t[1]} & {t[2]:#x})"
    if t[0] == 'cmp': return f"({t[2][1]} {t[1]} {t[3][1]})"
    if t[0] == 'not': return "~" + showc(t[1])
    return "(" + showc(t[1]) + (" & " if t[0] == 'and' else " | ") + showc(t[2]) + ")"
def shows(ss):
    return "[" + ", ".join(("m%d" % s[1]) if s[0] == 'mark' else f"if {showc(s[1])}: {shows(s[2])}" + (f" else: {shows(s[3])}" if s[3] is not None else "") for s in ss) + "]"
def trun(fd):
    din = create_string_buffer(64); dout = create_string_buffer(128)
    bpf(10, "IIIIQQII20x", fd, 0, len(din), len(dout), addrof(din), addrof(dout), 1, 0)
stats = collections.Counter(); examples = {}
N = int(sys.argv[2]) if len(sys.argv) > 2 else 300
for it in range(N):
    leaves = ['v' + f for f in random.sample(list(FMT), 3)]
    ctr = [0]; ss = gstmt(2, leaves, ctr)
    if ctr[0] > 30 or all(s[0] == 'mark' for s in ss): continue
    ns = {'m': ArrayMap()}
    for l in leaves: ns[l] = ns['m'].globalVar(l[-1])
    ns['res'] = ns['m'].globalVar('I')
    P = type('P', (EBPF,), ns)
    try:
        e = P(ProgType.XDP, "GPL"); emit(e, ss); e.exit(); e.load(log_level=1)
    except Exception as ex:
        k = 'gen-' + type(ex).__name__; stats[k] += 1
        last = [l for l in str(ex).split('\n') if l.strip()]
        examples.setdefault(k + ':' + (last[-2][:50] if len(last) > 1 else str(ex)[:50]), shows(ss)); continue
    for trial in range(16):
        env = {}
        for l in leaves:
            lo, hi = rng(l[-1]); env[l] = random.choice([0, 1, hi, lo, 2, 127, 128, 255, random.randint(lo, hi), random.randint(max(lo,-300), min(hi, 300))])
            env[l] = max(lo, min(hi, env[l])); setattr(e, l, env[l])
        e.res = 0
        try: want = ref(ss, env)
        except Unfit: stats['outside-pre'] += 1; continue
        trun(e.file_descriptor); got = e.res; stats['checked'] += 1
        if got != want:
            stats['FAIL'] += 1
            examples.setdefault('FAIL%d' % stats['FAIL'], (shows(ss), env, 'got', bin(got), 'want', bin(want))) if stats['FAIL'] <= 12 else None
    e.close()
print(dict(stats))
for k, v in examples.items(): print(k, v)
