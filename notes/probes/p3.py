"""probe: real Terminal.sdo_read / sdo_write against a small ETG.1000.6-style CoE SDO server behind a mailbox"""
import sys, asyncio, struct, logging, collections
sys.path.insert(0, '/repo')
logging.disable(logging.CRITICAL)
from ebpfcat.ethercat import Terminal, ECCmd, EtherCatError
from ebpfcat.lock import MailboxLock

class Server:
    """objects: dict (index, sub) -> bytearray.  Mailbox: out (master->slave) at OUT_OFF size osz, in at IN_OFF size isz"""
    OUT_OFF, IN_OFF = 0x1000, 0x1080
    def __init__(self, osz, isz, objects):
        self.osz, self.isz, self.obj = osz, isz, objects
        self.outbuf = bytearray(osz); self.inq = collections.deque(); self.msgs = []
        self.up = None; self.down = None
    # --- register level
    def write(self, off, data):
        if self.OUT_OFF <= off < self.OUT_OFF + self.osz:
            self.outbuf[off - self.OUT_OFF: off - self.OUT_OFF + len(data)] = data
            if off + len(data) == self.OUT_OFF + self.osz:   # last byte written -> mailbox full
                self.process(bytes(self.outbuf)); self.outbuf = bytearray(self.osz)
    def read(self, off, n):
        if off == 0x805: return bytes([0])                 # SM0 status: not full
        if off == 0x80D: return bytes([8 if self.inq else 0])
        if off == self.IN_OFF:
            m = self.inq.popleft(); return (m + bytes(self.isz))[:n]
        return bytes(n)
    # --- protocol level
    def reply(self, cnt, payload):
        assert len(payload) + 6 <= self.isz, "server reply too big"
        self.inq.append(struct.pack("<HHBB", len(payload), 0, 0, 3 | cnt << 4) + payload)
    def process(self, buf):
        dlen, addr, prio, typ = struct.unpack_from("<HHBB", buf, 0)
        body = buf[6:6 + dlen]; self.msgs.append((dlen, typ >> 4, bytes(body)))
        if typ & 0xf != 3: return
        coe, = struct.unpack_from("<H", body, 0); 
        if coe >> 12 != 2: return
        cmd = body[2]; ccs = cmd >> 5
        if ccs == 1:      # initiate download
            idx, sub = struct.unpack_from("<HB", body, 3); exp = cmd & 2; sizeind = cmd & 1; ca = cmd & 0x10
            if exp:
                n = 4 - ((cmd >> 2) & 3) if sizeind else 4
                self.obj[idx, sub] = bytearray(body[6:6 + n])
                self.reply(0, struct.pack("<HBHB4x", 3 << 12, 0x60, idx, sub)); return
            size, = struct.unpack_from("<I", body, 6); data = body[10:]
            if len(data) > size: return self.abort(idx, sub, 0x06070010)   # length mismatch
            self.down = dict(idx=idx, sub=sub, size=size, data=bytearray(data), toggle=0)
            if len(data) == size: self.obj[idx, sub] = bytearray(data); self.down = None
            self.reply(0, struct.pack("<HBHB4x", 3 << 12, 0x60, idx, sub)); return
        if ccs == 0:      # download segment
            if self.down is None: return self.abort(0, 0, 0x05040001)
            toggle = (cmd >> 4) & 1; last = cmd & 1; n = (cmd >> 1) & 7
            if toggle != self.down['toggle']: return self.abort(self.down['idx'], self.down['sub'], 0x05030000)
            seg = body[3:]
            if len(seg) == 7: seg = seg[:7 - n]
            self.down['data'] += seg; self.down['toggle'] ^= 1
            self.reply(0, struct.pack("<HB", 3 << 12, 0x20 | toggle << 4) + bytes(7))
            if last:
                d = self.down; self.down = None
                if len(d['data']) == d['size']: self.obj[d['idx'], d['sub']] = d['data']
                else: self.bad = ('segmented size mismatch', len(d['data']), d['size'])
            return
        if ccs == 2:      # initiate upload
            idx, sub = struct.unpack_from("<HB", body, 3)
            v = bytes(self.obj[idx, sub])
            if len(v) <= 4 and len(v) > 0:
                self.reply(0, struct.pack("<HBHB", 3 << 12, 0x43 | (4 - len(v)) << 2, idx, sub) + v + bytes(4 - len(v))); return
            room = self.isz - 6 - 10
            first = v[:room]; self.up = dict(rest=v[room:], toggle=0)
            self.reply(0, struct.pack("<HBHBI", 3 << 12, 0x41, idx, sub, len(v)) + first)
            if not self.up['rest']: self.up = None
            return
        if ccs == 3:      # upload segment
            toggle = (cmd >> 4) & 1
            if self.up is None or toggle != self.up['toggle']: return self.abort(0, 0, 0x05030000)
            room = self.isz - 6 - 3
            seg = self.up['rest'][:room]; self.up['rest'] = self.up['rest'][room:]
            last = not self.up['rest']; n = 0
            if len(seg) < 7: n = 7 - len(seg); seg = seg + bytes(n)
            self.reply(0, struct.pack("<HB", 3 << 12, toggle << 4 | n << 1 | last) + seg)
            self.up['toggle'] ^= 1
            if last: self.up = None
    def abort(self, idx, sub, code):
        self.reply(0, struct.pack("<HBHBI", 2 << 12, 0x80, idx, sub, code))

class Ec:
    def __init__(self, srv): self.srv = srv
    async def roundtrip(self, cmd, pos, off, *args, data=None, idx=0):
        fmt = "<" + "".join(a for a in args[:-1] if isinstance(a, str))
        out = struct.pack(fmt, *[a for a in args if not isinstance(a, str)])
        if args and isinstance(args[-1], str): out += bytes(struct.calcsize("<" + args[-1])); fmt += args[-1]
        if isinstance(data, int): out += bytes(data)
        elif data is not None: out += data
        if cmd is ECCmd.FPWR: self.srv.write(off, out); ret = out
        else: ret = self.srv.read(off, len(out))
        if data is None: return struct.unpack(fmt, ret)
        elif args:
            n = data if isinstance(data, int) else len(data)
            return struct.unpack(fmt, ret[:len(ret) - n]) + (ret[len(ret) - n:],)
        return ret

async def one(kind, length, osz, isz, sub):
    val = bytes((i * 7 + 1) % 251 for i in range(length))
    srv = Server(osz, isz, {(0x2000, 1 if sub is None else sub): bytearray(val if kind == 'read' else b'')})
    t = Terminal(Ec(srv)); t.position = 1; t.mbx_lock = MailboxLock()
    t.mbx_out_off, t.mbx_out_sz, t.mbx_in_off, t.mbx_in_sz = srv.OUT_OFF, osz, srv.IN_OFF, isz
    try:
        if kind == 'read':
            got = await asyncio.wait_for(t.sdo_read(0x2000, sub), 1)
            return 'ok' if bytes(got) == val else 'WRONG %r' % (bytes(got)[:8],)
        await asyncio.wait_for(t.sdo_write(val, 0x2000, sub), 1)
        got = bytes(srv.obj.get((0x2000, 1 if sub is None else sub), b'<unset>'))
        too_big = [m for m in srv.msgs if m[0] + 6 > osz]
        if too_big: return 'MSG-TOO-BIG'
        return 'ok' if got == val else 'WRONG len %d vs %d' % (len(got), len(val))
    except asyncio.TimeoutError: return 'HANG'
    except Exception as ex: return type(ex).__name__ + ':' + str(ex)[:50]

async def main():
    for kind in ('read', 'write'):
        for sub in (1, None):
            for osz, isz in ((32, 32), (64, 64)):
                res = collections.OrderedDict()
                for length in list(range(0, 12)) + list(range(isz - 20, isz + 8)) + [2 * isz - 10, 2 * isz, 3 * isz + 5]:
                    r = await one(kind, length, osz, isz, sub)
                    res.setdefault(r, []).append(length)
                print(kind, 'sub', sub, 'mbx', osz, {k: (v if len(v) < 8 else v[:6] + ['...', v[-1]]) for k, v in res.items()})
asyncio.run(main())
