import sys
sys.path.insert(0, '/repo')
from ebpfcat.ebpf import EBPF, LocalVar
from ebpfcat.arraymap import ArrayMap
from ebpfcat.bpf import ProgType
def mk():
    class P(EBPF):
        m = ArrayMap()
        q = m.globalVar('q'); I = m.globalVar('I'); i = m.globalVar('i'); Q = m.globalVar('Q'); fx = m.globalVar('x'); b = m.globalVar('I')
        l = LocalVar('I')
    return P(ProgType.XDP, "GPL")
for name, f in [("I+=7", lambda e: setattr(e, 'I', e.I.__iadd__(7))),]:
    pass
def show(title, build):
    e = mk(); n0 = len(e.opcodes); build(e)
    print(title, [ (str(o.opcode), o.dst, o.src, o.off, o.imm) for o in e.opcodes[n0:]])
def b1(e): e.I += 7
def b2(e): e.q -= e.b * 2
def b3(e): e.fx += 1.5
def b4(e): e.fx += e.i
def b5(e): e.l += e.r1
def b6(e): e.i -= e.r1
def b7(e): e.Q += e.Q
for b in (b1,b2,b3,b4,b5,b6,b7):
    try: show(b.__name__, b)
    except Exception as ex: print(b.__name__, "EXC", type(ex).__name__, ex)
