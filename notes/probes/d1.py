# abstract BFS of the dispatcher protocol as transcribed from EtherXDP.program (registered group, rate=0)
from collections import deque
def step(c, idx):
    """returns (action, c', idx', ran)"""
    r4 = c & 0xff
    if idx == r4:                      # "we lost a packet"
        c = (c + 1 + (r4 & 1)) & 0xffffffff
    elif ((idx + 1) & 0xff) == r4 or idx == 0:   # normal
        c = (c + 1) & 0xffffffff
        if r4 & 1:
            return ('TX', c, c & 0xff, False)   # passive
    else:
        return ('PASS', c, idx, False)          # superfluous -> user space
    return ('TX', c, c & 0xff, True)            # active: group program runs, returns TX

def explore(maxfl, cmod=256):
    init = (0, (), 0)   # c (mod 256 tracked exactly as u8 since only low byte matters), frames sorted tuple of (idx, enabled), consecutive non-run
    seen = {init: None}; q = deque([init]); worst = 0; bad21 = None; bad22 = None
    while q:
        s = q.popleft(); c, fr, k = s
        succ = []
        if len(fr) < maxfl:
            succ.append((('inject',), (c, tuple(sorted(fr + ((0, False),))), k)))
        for i, (idx, en) in enumerate(fr):
            rest = fr[:i] + fr[i+1:]
            succ.append((('lose', idx), (c, rest, k)))
            act, c2, idx2, ran = step(c, idx)
            c2 &= 0xff
            if act == 'TX':
                en2 = True if ran else en
                if not ran and en and bad21 is None: bad21 = (s, idx)
                nf = tuple(sorted(rest + ((idx2, en2),)))
            else:
                nf = rest
            k2 = 0 if ran else k + 1
            if k2 > worst: worst = k2
            if k2 > 2 and bad22 is None: bad22 = (s, idx)
            succ.append((('deliver', idx), (c2, nf, min(k2, 5))))
        for lab, t in succ:
            if t not in seen:
                seen[t] = (s, lab); q.append(t)
    def trace(s):
        out = []
        while seen[s] is not None:
            p, lab = seen[s]; out.append((lab, s)); s = p
        return out[::-1]
    return len(seen), worst, bad21, bad22, trace
if __name__ == "__main__":
  for fl in (2, 3):
      n, worst, b21, b22, trace = explore(fl)
      print("in-flight<=", fl, "states", n, "max consecutive non-run", worst)
      if b22:
          print("  C22 witness: from", b22[0], "deliver idx", b22[1]); 
          for lab, s in trace(b22[0])[-12:]: print("     ", lab, "->", s)
      if b21:
          print("  C21 witness: from", b21[0], "deliver idx", b21[1])
          for lab, s in trace(b21[0])[-12:]: print("     ", lab, "->", s)
