import sys, asyncio, struct, logging
sys.path.insert(0, '/repo')
logging.disable(logging.CRITICAL)
from ebpfcat.ethercat import EtherCat, ECCmd, Terminal, EtherCatError, Packet

class FakeTransport:
    def __init__(self): self.sent = []
    def sendto(self, data, addr): self.sent.append(bytes(data))

async def case_cancel():
    ec = EtherCat('x'); ec.send_queue = asyncio.Queue(); ec.transport = tr = FakeTransport()
    sl = asyncio.ensure_future(ec.sendloop())
    t1 = asyncio.ensure_future(ec.roundtrip(ECCmd.FPRD, 1, 2, "H", 7))
    t2 = asyncio.ensure_future(ec.roundtrip(ECCmd.FPRD, 2, 2, "H", 8))
    t3 = asyncio.ensure_future(ec.roundtrip(ECCmd.FPRD, 3, 2, "H", 9))
    await asyncio.sleep(0.01)
    print("frames sent", len(tr.sent), tr.sent[0].hex())
    t1.cancel()
    await asyncio.sleep(0)
    # bus: answer with wkc=0 for first, 1 for others
    data = bytearray(tr.sent[0])
    # positions: first dgram data at 16+10=26..28, wkc at 28; second 40..42, wkc 42 ; third wkc 56
    data[42] = 1; data[56] = 1
    ec.datagram_received(bytes(data), None)
    await asyncio.sleep(0.01)
    for t in (t1,t2,t3):
        try: print("result", t.result())
        except BaseException as e: print("exc", type(e).__name__, e)
    sl.cancel()

async def case_big():
    ec = EtherCat('x'); ec.send_queue = asyncio.Queue(); ec.transport = tr = FakeTransport()
    sl = asyncio.ensure_future(ec.sendloop())
    t1 = asyncio.ensure_future(ec.roundtrip(ECCmd.FPRD, 1, 2, data=2000))
    import signal
    def bail(*a): print("STALL: event loop blocked; frames sent so far", len(tr.sent)); raise SystemExit
    signal.signal(signal.SIGALRM, bail); signal.alarm(2)
    await asyncio.sleep(0.5)
    print("no stall; t1 done?", t1.done())
asyncio.run(case_cancel())
asyncio.run(case_big())
