import sys, os, random
sys.path.insert(0, '/repo')
from ebpfcat.serial import Serial
random.seed(4)
class Ch: transmit_accept=receive_request=init_accept=in_string=transmit_request=receive_accept=init_request=out_string=None
class S(Serial):
    transmit_accept = False; receive_request = False; init_accept = False; in_string = b''
    transmit_request = False; receive_accept = False; init_request = False; out_string = b''
bad = 0
for it in range(300):
    s = S(Ch())
    # terminal model state
    TA = RR = IA = False; last_TR = False; last_RA = False
    tx_pending = None; tx_delay = 0; accepted = []
    rx_queue = [bytes(random.randrange(1, 256) for _ in range(random.randrange(1, 23))) for _ in range(random.randrange(0, 6))]
    rx_sent = []; rx_wait_ack = False; rx_delay = 0
    app_out = [bytes(random.randrange(1, 256) for _ in range(random.randrange(1, 23))) for _ in range(random.randrange(0, 6))]
    app_written = []
    init_delay = random.randrange(0, 3)
    for cycle in range(120):
        # application writes a chunk occasionally
        if app_out and random.random() < .3 and s.connected:
            d = app_out.pop(0); os.write(s.out_write, d); app_written.append(d)
        # master update sees terminal status
        s.transmit_accept, s.receive_request, s.init_accept = TA, RR, IA
        s.update()
        TR, RA, IR, out = s.transmit_request, s.receive_accept, s.init_request, s.out_string
        # terminal reacts
        if IR:
            if init_delay == 0: IA = True
            else: init_delay -= 1
            continue
        else:
            IA = False
        if TR != last_TR and tx_pending is None:
            tx_pending = out; tx_delay = random.randrange(0, 3); last_TR = TR
        if tx_pending is not None:
            if out != tx_pending: print("out_string changed before accept"); bad += 1; tx_pending = out
            if tx_delay == 0: accepted.append(tx_pending); tx_pending = None; TA = not TA
            else: tx_delay -= 1
        if rx_wait_ack and RA != last_RA:
            rx_wait_ack = False; last_RA = RA
        if not rx_wait_ack and rx_queue and s.connected:
            if rx_delay == 0:
                d = rx_queue.pop(0); S.in_string = d; s.in_string = d; RR = not RR; rx_wait_ack = True; rx_sent.append(d); rx_delay = random.randrange(0, 3)
            else: rx_delay -= 1
    got = b''
    try:
        while True:
            c = os.read(s.in_read, 65536)
            if not c: break
            got += c
    except BlockingIOError: pass
    exp_in = b'A' + b''.join(rx_sent)
    if got != exp_in: print("rx mismatch", got[:40], exp_in[:40]); bad += 1
    ja, jw = b''.join(accepted), b''.join(app_written)
    if not jw.startswith(ja) or (not app_out and tx_pending is None and s.current_transmit is None and ja != jw and cycle > 100):
        print("tx mismatch", ja[:30], jw[:30], len(ja), len(jw)); bad += 1
    for fd in (s.in_read, s.in_write, s.out_read, s.out_write): os.close(fd)
print("C28 bad", bad)
