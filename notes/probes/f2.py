import sys, random, struct
sys.path.insert(0, '/repo')
from ebpfcat.ebpfcat import SyncGroup, SimpleEtherCat, EBPFTerminal, Device, SyncManager
from ebpfcat.ethercat import Packet
random.seed(2)
class D(Device):
    def __init__(self, d): self.d = d
    def get_terminals(self): return self.d
bad = 0; rejected = 0
for it in range(5000):
    ec = SimpleEtherCat('x')
    groups = []
    for g in range(random.choice([1,1,2,3])):
        terms = {}
        for k in range(random.randrange(1, 8)):
            t = EBPFTerminal(ec); t.position = 1000 + len(terms) + 100*g
            t.pdo_in_sz = random.choice([0,0,1,2,6,40,300]); t.pdo_out_sz = random.choice([0,0,1,2,8,50,300])
            t.pdo_in_off = 0x1100; t.pdo_out_off = 0x1000
            t.use_fmmu = random.random() < .6
            terms[t] = random.random() < .6
        sg = SyncGroup(ec, [D(terms)])
        try:
            sg.allocate()
        except OverflowError:
            rejected += 1; continue
        frame = sg.packet.assemble(7, 0x88A4)
        # parse datagram data areas
        pos = 2; areas = []
        while True:
            cmd, idx, addr, l, irq = struct.unpack_from("<BBIHH", frame, pos)
            dl = l & 0x7ff; areas.append((pos+10, pos+10+dl, cmd, addr)); pos += 12+dl
            if not l >> 15: break
        regions = []
        for t, rw in sg.terminals.items():
            for sm, sz in ((SyncManager.IN, t.pdo_in_sz), (SyncManager.OUT, t.pdo_out_sz if rw else 0)):
                if sz:
                    if sm not in sg.pdo_assign[t]: print("missing region"); bad += 1; continue
                    st = sg.pdo_assign[t][sm]; regions.append((st, st+sz, t, sm))
                    inside = [a for a in areas if a[0] <= st and st+sz <= a[1]]
                    if not inside: print("region not inside a datagram", st, sz, areas); bad += 1
                    elif t.use_fmmu:
                        a = inside[0]; la = sg.fmmu_maps[t][sm]
                        if la - a[3] != st - a[0]: print("logical mismatch"); bad += 1
                elif sm in sg.pdo_assign[t]: print("unexpected region"); bad += 1
        regions.sort(key=lambda r: r[0])
        for a, b in zip(regions, regions[1:]):
            if a[1] > b[0]: print("overlap", a, b); bad += 1
        groups.append(sg)
    wins = sorted((sg.packet.next_logical_addr, sg.packet.next_logical_addr + 0x800 + sg.packet.fmmu_out_size) for sg in groups)
    for a, b in zip(wins, wins[1:]):
        if a[1] > b[0]: print("window overlap", a, b); bad += 1
print("C18 bad", bad, "rejected", rejected)
