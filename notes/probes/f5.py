import sys, random, asyncio, struct
sys.path.insert(0, '/repo')
from ebpfcat.ethercat import Terminal, ECCmd, SyncManager
random.seed(5)
class Ec:
    def __init__(self, image, eight, busy):
        self.image = image; self.eight = eight; self.busy = busy; self.addr = 0; self.cnt = 0; self.reads = 0
    async def roundtrip(self, cmd, pos, off, *args, data=None, idx=0):
        assert off == 0x502
        if cmd is ECCmd.FPWR:
            ctl, addr = args[1], args[2]; assert ctl == 0x100
            self.addr = addr; self.cnt = random.choice(self.busy); return ()
        fmt = "<" + "".join(a for a in args if isinstance(a, str))
        st = 0x40 if self.eight else 0
        if self.cnt > 0: self.cnt -= 1; st |= 0x8000
        n = struct.calcsize(fmt) - 6
        d = self.image[self.addr*2 : self.addr*2 + (8 if self.eight else 4)]
        d = d + bytes(8 - len(d)) if not (st & 0x8000) else bytes(random.randrange(256) for _ in range(8))
        raw = struct.pack("<H4x", st) + d[:n] if n > 0 else struct.pack("<H", st)
        return struct.unpack(fmt, raw)
bad = 0
async def main():
    global bad
    for it in range(3000):
        cats = {}
        types = random.sample(range(1, 60), random.randrange(0, 6))
        body = b''
        for t in types:
            ws = random.choice([0, 1, 2, 3, 4, 7, 16, 33]); c = bytes(random.randrange(256) for _ in range(ws*2))
            cats[t] = c; body += struct.pack("<HH", t, ws) + c
        ident = [random.randrange(2**32) for _ in range(4)]
        image = bytearray(0x80); struct.pack_into("<IIII", image, 16, *ident)
        image += body + struct.pack("<HH", 0xffff, 0xffff) + bytes(random.randrange(0, 9))
        ec = Ec(bytes(image), random.random() < .5, [0, 0, 1, 3])
        t = Terminal(ec); t.position = 3
        await t.read_eeprom()
        if t.eeprom != cats: print("cats differ", sorted(t.eeprom), sorted(cats)); bad += 1
        if [t.vendorId, t.productCode, t.revisionNo, t.serialNo] != ident: print("ident", ident); bad += 1
asyncio.run(main())
print("C17 eeprom bad", bad)
