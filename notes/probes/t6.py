import sys, struct, itertools
sys.path.insert(0, '/repo')
from ebpfcat.ebpf import EBPF, LocalVar, SubProgram
from ebpfcat.arraymap import ArrayMap
from ebpfcat.bpf import ProgType

# (d) override layout in subprogram hierarchy
class Main(EBPF):
    m = ArrayMap()
    z = m.globalVar('B')
class SA(SubProgram):
    a = Main.m.globalVar('B')
    b = Main.m.globalVar('B')
class SB(SA):
    a = Main.m.globalVar('Q')
s = SB()
x = Main(ProgType.XDP, "GPL", subprograms=[s])
print("C08 positions a,b,z", s.__dict__.get('a'), s.__dict__.get('b'), x.__dict__.get('z'), "size", Main.m.size)

# (a) conditions
def run(build, vals):
    class M(EBPF):
        m = ArrayMap()
        a = m.globalVar('i'); b = m.globalVar('i'); c = m.globalVar('B'); res = m.globalVar('I')
    e = M(ProgType.XDP, "GPL")
    build(e)
    e.exit()
    e.load(log_level=1)
    out = []
    for a, b, c in vals:
        e.a, e.b, e.c, e.res = a, b, c, 0
        e.test_run(1000,1000,0,0,1)
        out.append(e.res)
    return out
vals = list(itertools.product([-1, 0, 5], [0, 3], [0, 1, 2, 3]))
def b1(e):
    with (e.c & 2) as Else:
        e.res = 1
    with Else:
        e.res = 2
def b2(e):
    with ~((e.c & 1 != 0) & (e.a > e.b)) as Else:
        e.res = 1
    with Else:
        e.res = 2
def b3(e):
    with ((e.c & 1) | (e.a < 0)) & (e.b == 3) as Else:
        e.res = 1
        with e.c & 2 as E2:
            e.res += 10
        with E2:
            e.res += 20
    with Else:
        e.res = 2
ref1 = [1 if c & 2 else 2 for a,b,c in vals]
ref2 = [1 if not ((c&1) and a > b) else 2 for a,b,c in vals]
ref3 = [ (1 + (10 if c&2 else 20)) if ((c&1) or a<0) and b==3 else 2 for a,b,c in vals]
for b, r in ((b1,ref1),(b2,ref2),(b3,ref3)):
    try:
        o = run(b, vals)
        print(b.__name__, "OK" if o == r else ("MISMATCH", [(v,x,y) for v,x,y in zip(vals,o,r) if x!=y][:5]))
    except Exception as ex:
        print(b.__name__, "EXC", type(ex).__name__, str(ex)[-300:])
