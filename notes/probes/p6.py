"""probe C09: HashMap variables and Dict from both sides, in the kernel"""
import sys, struct
sys.path.insert(0, '/repo')
from ctypes import create_string_buffer
from ebpfcat.ebpf import EBPF, Structure, Member
from ebpfcat.hashmap import HashMap, Dict
from ebpfcat.arraymap import ArrayMap
from ebpfcat.bpf import ProgType, bpf, addrof
def trun(fd):
    din = create_string_buffer(64); dout = create_string_buffer(128)
    bpf(10, "IIIIQQII20x", fd, 0, len(din), len(dout), addrof(din), addrof(dout), 1, 0)
class Key(Structure):
    kq = Member("q"); ki = Member("I"); kh = Member("h"); kb = Member("B")
class Value(Structure):
    vq = Member("Q"); vi = Member("i"); vb = Member("b")
class P(EBPF):
    hm = HashMap()
    ha = hm.globalVar("I", default=5); hb = hm.globalVar("q", default=-7); hc = hm.globalVar("B", default=200)
    d = Dict(key=Key, value=Value, size=8)
    am = ArrayMap()
    found = am.globalVar("I"); oq = am.globalVar("Q"); oi = am.globalVar("i"); ob = am.globalVar("b")
    def program(self):
        self.hb = self.hb - 1
        self.ha = self.ha + 200
        # lookup key (1, 2, -3, 4) -> copy out and modify
        self.d.key.kq = 1; self.d.key.ki = 2; self.d.key.kh = -3; self.d.key.kb = 4
        with self.d.lookup() as (v, Else):
            self.found = 1
            self.oq = v.vq; self.oi = v.vi; self.ob = v.vb
            v.vi = v.vi - 1000
        with Else:
            self.found = 2
        # insert key (10, 20, 30, 40)
        self.d.key.kq = 10; self.d.key.ki = 20; self.d.key.kh = 30; self.d.key.kb = 40
        self.d.value.vq = 0xfedcba9876543210; self.d.value.vi = -5; self.d.value.vb = -6
        self.d.update()
        self.exit()
e = P(ProgType.XDP, "GPL")
print(e.load(log_level=1)[-120:].strip())
print("defaults after load: ha hb hc =", e.ha, e.hb, e.hc)
trun(e.file_descriptor)
print("absent key -> found =", e.found, "(2 = Else)")
print("after run: ha hb hc =", e.ha, e.hb, e.hc, "(expect 205 -8 200)")
k = Key(); k.kq = 10; k.ki = 20; k.kh = 30; k.kb = 40
v = e.d[k]; print("python sees inserted:", hex(v.vq), v.vi, v.vb)
k2 = Key(); k2.kq = 1; k2.ki = 2; k2.kh = -3; k2.kb = 4
v2 = Value(); v2.vq = 2**64 - 2; v2.vi = -123456; v2.vb = -128
e.d[k2] = v2
trun(e.file_descriptor)
print("present key -> found =", e.found, "program read:", e.oq, e.oi, e.ob, " python re-read vi:", e.d[k2].vi)
e.hb = -100; e.ha = 7
trun(e.file_descriptor)
print("python-set then run: ha hb =", e.ha, e.hb, "(expect 207 -101)")
print("Key.stack", Key.stack, "Value.stack", Value.stack, "offsets", P.d.key_offset, P.d.value_offset)
try:
    class E2(EBPF):
        d = Dict(key=Key, value=Value, size=4)
    e2 = E2(ProgType.XDP, "GPL"); e2.exit(); e2.load()
    print("iterate empty:", list(e2.d))
except Exception as ex: print("iterate empty ->", type(ex).__name__, ex)
