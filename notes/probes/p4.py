"""probe C15: (1) LockFile creation window, (2) two tasks of one process sharing a ParallelMailboxLock"""
import sys, os, asyncio, tempfile, shutil
sys.path.insert(0, '/repo')
import ebpfcat.lock as lock
d = tempfile.mkdtemp(dir='/dev/shm')
try:
    fn = d + '/mbx'
    # (1) opener arrives between the creator's O_EXCL open and its os.write
    real_write = os.write
    result = {}
    def hooked_write(fd, data):
        if 'done' not in result:
            result['done'] = True
            async def opener():
                lf2 = lock.LockFile(fn, 1000, 1010)           # FileExistsError branch -> plain open
                pl = lock.ParallelMailboxLock(lf2, 1003)
                try:
                    async with pl:
                        result['counter'] = pl.next_counter()
                        pl.counter = 5                          # pretend several messages were sent
                except Exception as ex:
                    result['exc'] = repr(ex)
            asyncio.run(opener())
        return real_write(fd, data)
    os.write = hooked_write
    lf1 = lock.LockFile(fn, 1000, 1010)
    os.write = real_write
    print("(1) opener during creation window:", result)
    # (2) same process, two tasks, one lock object
    async def two():
        pl = lock.ParallelMailboxLock(lf1, 1004)
        log = []
        async def user(name):
            async with pl:
                c = pl.next_counter(); log.append((name, 'send', c))
                await asyncio.sleep(0)            # waiting for the mailbox response
                log.append((name, 'recv'))
        await asyncio.gather(user('A'), user('B'))
        return log
    print("(2) two tasks, one process:", asyncio.run(two()))
finally:
    shutil.rmtree(d)
