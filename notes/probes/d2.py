import sys, struct
sys.path.insert(0, '/tmp/scratch')
from ctypes import create_string_buffer
from ebpfcat.ebpfcat import EtherXDP
from ebpfcat.xdp import XDP, XDPExitCode
from ebpfcat.bpf import create_map, MapType, bpf, addrof, update_elem
sys.path.insert(0, '/tmp/exp')
from d1 import step   # abstract transcription (runs BFS on import? guard)
class Ran(XDP):
    license = "GPL"
    def program(self):
        self.exit(XDPExitCode.TX)
def trun(fd, data):
    din = create_string_buffer(bytes(data), len(data)); dout = create_string_buffer(len(data)+64)
    ret, vals = bpf(10, "IIIIQQII20x", fd, 0, len(din), len(dout), addrof(din), addrof(dout), 1, 0)
    return vals[1], dout.raw[:vals[3]]
e = EtherXDP()
e.programs = create_map(MapType.PROG_ARRAY, 4, 4, 64)
e.load(log_level=1)
r = Ran(); r.load()
G = 5
update_elem(e.programs, struct.pack("<I", G), struct.pack("<I", r.file_descriptor))
def frame(idx, g, et=0x88A4, cmd=0):
    f = bytearray(64)
    struct.pack_into("!H", f, 12, et); f[16] = cmd; f[17] = idx
    struct.pack_into("<I", f, 18, g); struct.pack_into("<H", f, 26, 0x1234)
    return f
bad = 0; n = 0
for reg, g in ((True, G), (False, 9)):
    for c in list(range(0, 256)) + [0xffffffff, 0x1ff, 0x100]:
        for idx in range(256):
            ctrs = [0]*64; ctrs[g] = c
            e.counters = tuple(ctrs)
            rv, out = trun(e.file_descriptor, frame(idx, g))
            c2 = e.counters[g]; idx2 = out[17]; et2 = struct.unpack_from("!H", out, 12)[0]
            act, mc, midx, ran = step(c, idx)
            if act == 'PASS':
                exp = (2, mc, idx, 0x1234)
            elif ran:
                exp = (3, mc, midx, 0x88A4) if reg else (2, mc, midx, 0x1234)   # unregistered: tail call fails -> PASS with data0 ethertype
            else:
                exp = (3, mc, midx, 0x88A4)
            got = (rv, c2, idx2, et2)
            n += 1
            if got != exp:
                bad += 1
                if bad < 10: print("MISMATCH reg", reg, "c", c, "idx", idx, "got", got, "exp", exp)
# foreign frames
for et, cmd in ((0x0800, 0), (0x88A4, 4)):
    f = frame(3, G, et, cmd); rv, out = trun(e.file_descriptor, f)
    if rv != 2 or bytes(out) != bytes(f): bad += 1; print("foreign changed", et, cmd, rv)
# short frame
rv, out = trun(e.file_descriptor, bytes(20))
print("short frame retval", rv)
print("dispatcher vs transcription: cases", n, "bad", bad)
