import sys
sys.path.insert(0, '/repo')
from ebpfcat.ebpf import EBPF, LocalVar
from ebpfcat.arraymap import ArrayMap
from ebpfcat.bpf import ProgType

class P(EBPF):
    m = ArrayMap()
    a = m.globalVar('q')
    b = m.globalVar('q')
    c = m.globalVar('q')
    d = m.globalVar('i')
    e_ = m.globalVar('i')
    f = m.globalVar('i')
    def program(self):
        self.c = self.a // self.b
        self.f = self.d // self.e_
        self.exit()

p = P(ProgType.XDP, "GPL")
print(p.load(log_level=1)[-300:])
for op in p.opcodes: print(op)
p.a = -6; p.b = 2; p.d = -6; p.e_ = 2
p.test_run(1000,1000,0,0,1)
print(p.c, p.f)
