structure St where
  r0 : BitVec 64
  r1 : BitVec 64
  r2 : BitVec 64
deriving DecidableEq

inductive I | add01 | and1 (m : BitVec 64) | jeq (k : BitVec 64) (off : Nat) | mov2 | xor12

def step (p : Array I) (pc : Nat) (s : St) : Nat × St :=
  match p[pc]? with
  | some .add01 => (pc+1, {s with r0 := s.r0 + s.r1})
  | some (.and1 m) => (pc+1, {s with r1 := s.r1 &&& m})
  | some (.jeq k off) => if s.r0 == k then (pc+1+off, s) else (pc+1, s)
  | some .mov2 => (pc+1, {s with r2 := s.r0})
  | some .xor12 => (pc+1, {s with r1 := s.r1 ^^^ s.r2})
  | none => (pc, s)

def run (p : Array I) : Nat → Nat → St → St
  | 0, _, s => s
  | f+1, pc, s => let (pc', s') := step p pc s; run p f pc' s'

def prog : Array I := #[.add01, .and1 0xff, .jeq 7 2, .mov2, .xor12, .add01, .and1 0xfff, .mov2, .xor12, .add01,
  .add01, .and1 0xff, .jeq 7 2, .mov2, .xor12, .add01, .and1 0xfff, .mov2, .xor12, .add01,
  .add01, .and1 0xff, .jeq 7 2, .mov2, .xor12, .add01, .and1 0xfff, .mov2, .xor12, .add01,
  .add01, .and1 0xff, .jeq 7 2, .mov2, .xor12, .add01, .and1 0xfff, .mov2, .xor12, .add01]

def spec (a b : Nat) : Bool :=
  let s := run prog 40 0 ⟨BitVec.ofNat 64 a, BitVec.ofNat 64 b, 0⟩
  s.r1.toNat < 18446744073709551616

theorem all_ok : (List.range 2048).all (fun n => spec (n / 256) (n % 256)) = true := by
  decide +kernel
#print axioms all_ok
