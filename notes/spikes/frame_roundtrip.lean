/-! spike: datagram list encode / independent parse round trip (shape of C11) -/
abbrev Bytes := List UInt8

def enc16 (n : Nat) : Bytes := [UInt8.ofNat (n % 256), UInt8.ofNat (n / 256 % 256)]
def dec16 (a b : UInt8) : Nat := a.toNat + 256 * b.toNat

theorem dec16_enc16 (n : Nat) (h : n < 65536) :
    dec16 (UInt8.ofNat (n % 256)) (UInt8.ofNat (n / 256 % 256)) = n := by
  simp [dec16, UInt8.toNat_ofNat']
  omega

structure Dg where
  cmd : UInt8
  idx : UInt8
  a0 : UInt8
  a1 : UInt8
  a2 : UInt8
  a3 : UInt8
  data : Bytes
  wkc : Nat
deriving DecidableEq, Repr

def Dg.ok (d : Dg) : Prop := d.data.length < 2048 ∧ d.wkc < 65536

def encDg (more : Bool) (d : Dg) : Bytes :=
  [d.cmd, d.idx, d.a0, d.a1, d.a2, d.a3] ++ enc16 (d.data.length + (if more then 32768 else 0)) ++ [0, 0]
    ++ d.data ++ enc16 d.wkc

def encAll : List Dg → Bytes
  | [] => []
  | [d] => encDg false d
  | d :: d' :: ds => encDg true d ++ encAll (d' :: ds)

/-- independent parser: reads datagrams until one without the `more` flag -/
def parse : Nat → Bytes → Option (List Dg × Bytes)
  | 0, _ => none
  | fuel+1, cmd :: idx :: a0 :: a1 :: a2 :: a3 :: l0 :: l1 :: _ :: _ :: rest =>
    let l := dec16 l0 l1
    let len := l % 2048
    let more := l / 32768 == 1
    if rest.length < len + 2 then none else
    let data := rest.take len
    match rest.drop len with
    | w0 :: w1 :: rest' =>
      let d : Dg := ⟨cmd, idx, a0, a1, a2, a3, data, dec16 w0 w1⟩
      if more then
        match parse fuel rest' with
        | some (ds, r) => some (d :: ds, r)
        | none => none
      else some ([d], rest')
    | _ => none
  | _+1, _ => none

theorem parse_encDg (more : Bool) (d : Dg) (h : d.ok) (tail : Bytes) (fuel : Nat) :
    parse (fuel+1) (encDg more d ++ tail) =
      if more then (match parse fuel tail with | some (ds, r) => some (d :: ds, r) | none => none)
      else some ([d], tail) := by
  obtain ⟨hl, hw⟩ := h
  have m1 : d.data.length % 2048 = d.data.length := Nat.mod_eq_of_lt hl
  have m2 : (d.data.length + 32768) % 2048 = d.data.length := by omega
  have m3 : d.data.length / 32768 = 0 := by omega
  have m4 : (d.data.length + 32768) / 32768 = 1 := by omega
  have dr : ∀ (x y : UInt8) (t : Bytes), List.drop d.data.length (d.data ++ x :: y :: t) = x :: y :: t := by
    intro x y t; simp
  have tk : ∀ (x y : UInt8) (t : Bytes), List.take d.data.length (d.data ++ x :: y :: t) = d.data := by
    intro x y t; simp
  cases more
  · simp only [encDg, enc16, List.cons_append, List.nil_append, List.append_assoc, parse]
    rw [dec16_enc16 _ (by simp; omega)]
    simp only [Bool.false_eq_true, if_false, Nat.add_zero, m1, m3, dr, tk, dec16_enc16 _ hw]
    simp
  · simp only [encDg, enc16, List.cons_append, List.nil_append, List.append_assoc, parse]
    rw [dec16_enc16 _ (by simp; omega)]
    simp only [if_true, m2, m4, dr, tk, dec16_enc16 _ hw]
    simp
    omega

theorem parse_encAll (ds : List Dg) (hne : ds ≠ []) (hok : ∀ d ∈ ds, d.ok) (tail : Bytes) :
    parse ds.length (encAll ds ++ tail) = some (ds, tail) := by
  induction ds with
  | nil => exact absurd rfl hne
  | cons d ds ih =>
    cases ds with
    | nil =>
      simp only [encAll, List.length_singleton]
      rw [parse_encDg false d (hok d (by simp)) tail 0]; simp
    | cons d' ds' =>
      simp only [encAll, List.length_cons, List.append_assoc]
      rw [parse_encDg true d (hok d (by simp)) _ _]
      have := ih (by simp) (fun x hx => hok x (by simp [hx]))
      simp only [List.length_cons] at this
      simp [this]
#print axioms parse_encAll
