import Std.Tactic.BVDecide
abbrev W := BitVec 64
inductive R | r0 | r1 | r2 deriving DecidableEq, Repr

inductive I
| mov (d s : R) | movi (d : R) (i : W) | add (d s : R) | sub (d s : R) | mul (d s : R)
| jsle (a b : R) (off : Nat) | jsge (a b : R) (off : Nat) | neg (d : R) | exit
deriving Repr

-- concrete machine
structure St where
  r0 : W
  r1 : W
  r2 : W
def St.get (s : St) : R → W | .r0 => s.r0 | .r1 => s.r1 | .r2 => s.r2
def St.set (s : St) (r : R) (v : W) : St :=
  match r with | .r0 => {s with r0 := v} | .r1 => {s with r1 := v} | .r2 => {s with r2 := v}

def run (p : List I) : Nat → Nat → St → St
  | 0, _, s => s
  | n+1, pc, s =>
    match p[pc]? with
    | some (.mov d x) => run p n (pc+1) (s.set d (s.get x))
    | some (.movi d i) => run p n (pc+1) (s.set d i)
    | some (.add d x) => run p n (pc+1) (s.set d (s.get d + s.get x))
    | some (.sub d x) => run p n (pc+1) (s.set d (s.get d - s.get x))
    | some (.mul d x) => run p n (pc+1) (s.set d (s.get d * s.get x))
    | some (.neg d) => run p n (pc+1) (s.set d (- s.get d))
    | some (.jsle a b off) => if (s.get a).sle (s.get b) then run p n (pc+1+off) s else run p n (pc+1) s
    | some (.jsge a b off) => if (s.get b).sle (s.get a) then run p n (pc+1+off) s else run p n (pc+1) s
    | some .exit => s
    | none => s

-- symbolic terms
inductive T | var (i : Nat) | const (w : W) | add (a b : T) | sub (a b : T) | mul (a b : T) | neg (a : T)
deriving Repr
def T.den (env : Nat → W) : T → W
  | .var i => env i | .const w => w | .add a b => a.den env + b.den env
  | .sub a b => a.den env - b.den env | .mul a b => a.den env * b.den env | .neg a => - a.den env

structure SS where
  r0 : T
  r1 : T
  r2 : T
def SS.get (s : SS) : R → T | .r0 => s.r0 | .r1 => s.r1 | .r2 => s.r2
def SS.set (s : SS) (r : R) (v : T) : SS :=
  match r with | .r0 => {s with r0 := v} | .r1 => {s with r1 := v} | .r2 => {s with r2 := v}
def SS.den (env : Nat → W) (s : SS) : St := ⟨s.r0.den env, s.r1.den env, s.r2.den env⟩

inductive Tree | leaf (s : SS) | br (a b : T) (t e : Tree)   -- condition a ≤s b
def Tree.den (env : Nat → W) : Tree → St
  | .leaf s => s.den env
  | .br a b t e => if (a.den env).sle (b.den env) then t.den env else e.den env

def symRun (p : List I) : Nat → Nat → SS → Tree
  | 0, _, s => .leaf s
  | n+1, pc, s =>
    match p[pc]? with
    | some (.mov d x) => symRun p n (pc+1) (s.set d (s.get x))
    | some (.movi d i) => symRun p n (pc+1) (s.set d (.const i))
    | some (.add d x) => symRun p n (pc+1) (s.set d (.add (s.get d) (s.get x)))
    | some (.sub d x) => symRun p n (pc+1) (s.set d (.sub (s.get d) (s.get x)))
    | some (.mul d x) => symRun p n (pc+1) (s.set d (.mul (s.get d) (s.get x)))
    | some (.neg d) => symRun p n (pc+1) (s.set d (.neg (s.get d)))
    | some (.jsle a b off) => .br (s.get a) (s.get b) (symRun p n (pc+1+off) s) (symRun p n (pc+1) s)
    | some (.jsge a b off) => .br (s.get b) (s.get a) (symRun p n (pc+1+off) s) (symRun p n (pc+1) s)
    | some .exit => .leaf s
    | none => .leaf s

theorem den_get (env) (s : SS) (r : R) : (s.get r).den env = (s.den env).get r := by
  cases r <;> rfl
theorem den_set (env) (s : SS) (r : R) (v : T) : (s.set r v).den env = (s.den env).set r (v.den env) := by
  cases r <;> rfl

theorem symRun_sound (p : List I) (env : Nat → W) :
    ∀ n pc s, (symRun p n pc s).den env = run p n pc (s.den env) := by
  intro n
  induction n with
  | zero => intro pc s; rfl
  | succ n ih =>
    intro pc s
    unfold symRun run
    split <;> simp_all [Tree.den, den_get, den_set, T.den]

def Tree.denReg (env : Nat → W) (r : R) : Tree → W
  | .leaf s => (s.get r).den env
  | .br a b t e => if (a.den env).sle (b.den env) then t.denReg env r else e.denReg env r
theorem denReg_eq (env) (r : R) : ∀ t : Tree, (t.den env).get r = t.denReg env r := by
  intro t; induction t with
  | leaf s => simp [Tree.den, Tree.denReg, den_get]
  | br a b t e iht ihe => simp only [Tree.den, Tree.denReg]; split <;> assumption

def prog : List I := [
  .sub .r1 .r2, .mul .r0 .r1, .movi .r1 1000, .jsle .r0 .r1 1, .mov .r0 .r1,
  .movi .r1 1000, .neg .r1, .jsge .r0 .r1 1, .mov .r0 .r1, .exit]

def spec (g t p : W) : W :=
  let v := g * (t - p)
  if (1000 : W).slt v then 1000 else if v.slt (-1000) then -1000 else v

def env3 (g t p : W) : Nat → W | 0 => g | 1 => t | _ => p
def init : SS := ⟨.var 0, .var 1, .var 2⟩

theorem ok (g t p : W) : (run prog 12 0 ⟨g, t, p⟩).r0 = spec g t p := by
  have h := symRun_sound prog (env3 g t p) 12 0 init
  have e : (init.den (env3 g t p)) = ⟨g, t, p⟩ := rfl
  rw [e] at h
  show (run prog 12 0 ⟨g, t, p⟩).get .r0 = _
  rw [← h, denReg_eq]
  simp [symRun, prog, init, SS.set, SS.get, Tree.denReg, T.den, env3, spec]
  bv_decide
#print axioms ok
