abbrev W := BitVec 64
abbrev St := Nat → W
inductive Op | add | sub | mul deriving DecidableEq
def Op.ev : Op → W → W → W | .add, a, b => a + b | .sub, a, b => a - b | .mul, a, b => a * b

inductive E | reg (n : Nat) | const (v : W) | bin (op : Op) (l r : E)
def E.ev (σ : St) : E → W
  | .reg n => σ n | .const v => v | .bin op l r => op.ev (l.ev σ) (r.ev σ)
def E.contains (no : Nat) : E → Bool
  | .reg n => n == no | .const _ => false | .bin _ l r => l.contains no || r.contains no

inductive Ins | movr (d s : Nat) | movi (d : Nat) (v : W) | alur (op : Op) (d s : Nat) | alui (op : Op) (d : Nat) (v : W)
def upd (σ : St) (d : Nat) (v : W) : St := fun n => if n = d then v else σ n
def Ins.ex (σ : St) : Ins → St
  | .movr d s => upd σ d (σ s) | .movi d v => upd σ d v
  | .alur op d s => upd σ d (op.ev (σ d) (σ s)) | .alui op d v => upd σ d (op.ev (σ d) v)
def exec (c : List Ins) (σ : St) : St := c.foldl Ins.ex σ
theorem exec_nil (σ) : exec [] σ = σ := rfl
theorem exec_snoc (c : List Ins) (i : Ins) (σ) : exec (c ++ [i]) σ = i.ex (exec c σ) := by simp [exec]
theorem exec_append (a b : List Ins) (σ) : exec (a ++ b) σ = exec b (exec a σ) := by simp [exec]

-- owners as a list of registers in use; free register = first of 0..9 not in owners
def freeReg (owners : List Nat) : Option Nat := (List.range 10).find? (fun i => !owners.contains i)

def E.asConst : E → Option W | .const v => some v | _ => none

/-- code for the right operand and the ALU instruction, given the register `d` holding the left value -/

def comp (owners : List Nat) (dst : Nat) : E → Option (List Ins)
  | .reg n => some (if n = dst then [] else [.movr dst n])
  | .const v => some [.movi dst v]
  | .bin op l r =>
    if r.contains dst then
      (freeReg (dst :: owners)).bind fun t =>
      (comp (t :: dst :: owners) t l).bind fun cl =>
      (match r.asConst with
        | some v => some [Ins.alui op t v]
        | none => (freeReg (t :: dst :: owners)).bind fun s =>
                  (comp (s :: t :: dst :: owners) s r).map fun cr => cr ++ [Ins.alur op t s]).map fun cr =>
      cl ++ cr ++ [Ins.movr dst t]
    else
      (comp (dst :: owners) dst l).bind fun cl =>
      (match r.asConst with
        | some v => some [Ins.alui op dst v]
        | none => (freeReg (dst :: owners)).bind fun s =>
                  (comp (s :: dst :: owners) s r).map fun cr => cr ++ [Ins.alur op dst s]).map fun cr =>
      cl ++ cr

theorem freeReg_not_mem {o : List Nat} {t} (h : freeReg o = some t) : t ∉ o := by
  unfold freeReg at h
  have := List.find?_some h
  simpa using this

/-- leaves of e are owned -/
def E.leavesIn (o : List Nat) : E → Prop
  | .reg n => n ∈ o | .const _ => True | .bin _ l r => l.leavesIn o ∧ r.leavesIn o

theorem ev_congr (e : E) (σ τ : St) (h : ∀ n, e.contains n = true → σ n = τ n) : e.ev σ = e.ev τ := by
  induction e with
  | reg n => simp [E.ev]; exact h n (by simp [E.contains])
  | const v => rfl
  | bin op l r ihl ihr =>
    simp only [E.ev]
    rw [ihl (fun n hn => h n (by simp [E.contains, hn])), ihr (fun n hn => h n (by simp [E.contains, hn]))]

theorem contains_of_leaves {e : E} {o} (h : e.leavesIn o) {n} (hn : e.contains n = true) : n ∈ o := by
  induction e with
  | reg m => simp [E.contains] at hn; subst hn; exact h
  | const v => simp [E.contains] at hn
  | bin op l r ihl ihr =>
    simp [E.contains] at hn
    rcases hn with hn | hn
    · exact ihl h.1 hn
    · exact ihr h.2 hn

theorem leaves_mono {e : E} {o o'} (h : e.leavesIn o) (hs : ∀ n, n ∈ o → n ∈ o') : e.leavesIn o' := by
  induction e with
  | reg m => exact hs _ h
  | const v => trivial
  | bin op l r ihl ihr => exact ⟨ihl h.1, ihr h.2⟩

/-- main lemma: the code computes e into dst and preserves every owned register other than dst,
    provided the leaves are owned and (dst is not a leaf, or the expression is handled). -/
theorem comp_correct (e : E) : ∀ (o : List Nat) (dst : Nat) (c : List Ins) (σ : St),
    comp o dst e = some c → e.leavesIn o →
    (exec c σ dst = e.ev σ) ∧ (∀ n, n ∈ o → n ≠ dst → exec c σ n = σ n) := by
  induction e with
  | reg n =>
    intro o dst c σ hc hl
    simp [comp] at hc; subst hc
    by_cases h : n = dst
    · subst h; simp [exec, E.ev]
    · simp [h, exec, Ins.ex, upd, E.ev]; intro m _ hm; simp [hm]
  | const v =>
    intro o dst c σ hc hl
    simp [comp] at hc; subst hc
    simp [exec, Ins.ex, upd, E.ev]; intro m _ hm; simp [hm]
  | bin op l r ihl ihr =>
    intro o dst c σ hc hl
    obtain ⟨hll, hlr⟩ := hl
    simp only [comp] at hc
    split at hc
    · rename_i hcont
      simp only [Option.bind_eq_some_iff, Option.map_eq_some_iff] at hc
      obtain ⟨t, ht, cl, hcl, cr, hcr, rfl⟩ := hc
      have htn := freeReg_not_mem ht
      have ht_dst : t ≠ dst := by intro h; apply htn; simp [h]
      have ht_o : ∀ n, n ∈ o → n ≠ t := by intro n hn h; subst h; apply htn; simp [hn]
      have hl1 := ihl (t :: dst :: o) t cl σ hcl (leaves_mono hll (by intro n hn; simp [hn]))
      have hev : r.ev (exec cl σ) = r.ev σ := by
        apply ev_congr; intro n hn
        have hno : n ∈ o := contains_of_leaves hlr hn
        exact hl1.2 n (by simp [hno]) (ht_o n hno)
      split at hcr
      · rename_i v hv
        cases hcr
        cases r <;> simp [E.asConst] at hv
        simp [E.contains] at hcont
      · simp only [Option.bind_eq_some_iff, Option.map_eq_some_iff] at hcr
        obtain ⟨s, hs, cr', hcr', rfl⟩ := hcr
        have hsn := freeReg_not_mem hs
        have hs_t : s ≠ t := by intro h; apply hsn; simp [h]
        have hs_dst : s ≠ dst := by intro h; apply hsn; simp [h]
        have hs_o : ∀ n, n ∈ o → n ≠ s := by intro n hn h; subst h; apply hsn; simp [hn]
        have hr1 := ihr (s :: t :: dst :: o) s cr' (exec cl σ) hcr' (leaves_mono hlr (by intro n hn; simp [hn]))
        have e1 : exec (cl ++ (cr' ++ [Ins.alur op t s]) ++ [Ins.movr dst t]) σ
            = Ins.ex (Ins.ex (exec cr' (exec cl σ)) (Ins.alur op t s)) (Ins.movr dst t) := by
          rw [exec_snoc, exec_append, exec_snoc]
        rw [e1]
        have ht' : exec cr' (exec cl σ) t = exec cl σ t := hr1.2 t (by simp) (Ne.symm hs_t)
        constructor
        · simp [Ins.ex, upd, E.ev, ht_dst, hr1.1, ht', hl1.1, hev]
        · intro n hn hnd
          have hnt := ht_o n hn
          simp [Ins.ex, upd, hnd, hnt]
          rw [hr1.2 n (by simp [hn]) (hs_o n hn), hl1.2 n (by simp [hn]) hnt]
    · rename_i hcont
      simp only [Option.bind_eq_some_iff, Option.map_eq_some_iff] at hc
      obtain ⟨cl, hcl, cr, hcr, rfl⟩ := hc
      have hl1 := ihl (dst :: o) dst cl σ hcl (leaves_mono hll (by intro n hn; simp [hn]))
      have hev : r.ev (exec cl σ) = r.ev σ := by
        apply ev_congr; intro n hn
        have hno : n ∈ o := contains_of_leaves hlr hn
        have : n ≠ dst := by intro h; subst h; simp [hn] at hcont
        exact hl1.2 n (by simp [hno]) this
      split at hcr
      · rename_i v hv
        cases hcr
        cases r <;> simp [E.asConst] at hv
        subst hv
        rw [exec_snoc]
        constructor
        · simp [Ins.ex, upd, E.ev, hl1.1]
        · intro n hn hnd
          simp [Ins.ex, upd, hnd]
          exact hl1.2 n (by simp [hn]) hnd
      · simp only [Option.bind_eq_some_iff, Option.map_eq_some_iff] at hcr
        obtain ⟨s, hs, cr', hcr', rfl⟩ := hcr
        have hsn := freeReg_not_mem hs
        have hs_dst : s ≠ dst := by intro h; apply hsn; simp [h]
        have hs_o : ∀ n, n ∈ o → n ≠ s := by intro n hn h; subst h; apply hsn; simp [hn]
        have hr1 := ihr (s :: dst :: o) s cr' (exec cl σ) hcr' (leaves_mono hlr (by intro n hn; simp [hn]))
        have e1 : exec (cl ++ (cr' ++ [Ins.alur op dst s])) σ
            = Ins.ex (exec cr' (exec cl σ)) (Ins.alur op dst s) := by
          rw [exec_append, exec_snoc]
        rw [e1]
        have hd' : exec cr' (exec cl σ) dst = exec cl σ dst := hr1.2 dst (by simp) (Ne.symm hs_dst)
        constructor
        · simp [Ins.ex, upd, E.ev, hr1.1, hd', hl1.1, hev]
        · intro n hn hnd
          simp [Ins.ex, upd, hnd]
          rw [hr1.2 n (by simp [hn]) (hs_o n hn), hl1.2 n (by simp [hn]) hnd]

#print axioms comp_correct
